//! Database-level histories on SimFs with a reference oracle (BTreeMap + frozen snapshot copies).
//! Shared by the DB-level properties (C01 C03 C07 C09 C10 C11 …).

use std::collections::BTreeMap;
use std::ops::Range;
use std::sync::atomic::{AtomicBool, Ordering};
use std::sync::{Arc, Mutex};
use std::time::Duration;

use raindb::db::DatabaseDescriptor;
use raindb::verif::{Event, StateDump};
use raindb::{Batch, DbOptions, RainDbIterator, ReadOptions, Snapshot, WriteOptions, DB};

use crate::drv::{hex, unhex};
use crate::prng::Prng;
use crate::simfs::SimFs;

thread_local! {
    /// iterations of calls of `make_room_for_write` that have not returned yet, by call number
    static ROOM_CALLS: std::cell::RefCell<BTreeMap<u64, Vec<(raindb::verif::RoomView, &'static str)>>> = const { std::cell::RefCell::new(BTreeMap::new()) };
}

pub const DB_PATH: &str = "/db";

/// foreign files whose names resemble the database's own but do not parse to a file number
pub const FOREIGN_LOOKALIKES: [&str; 12] = [
    "/db/data/7.rdb.bak", "/db/data/.rdb", "/db/data/-3.rdb", "/db/data/3.RDB", "/db/data/18446744073709551616.rdb",
    "/db/wal/wal-.log", "/db/wal/wal-1.log.old", "/db/wal/x.log", "/db/wal/wal--1.log",
    "/db/.manifest", "/db/MANIFEST-1.manifest.bak", "/db/+.dbtemp",
];

thread_local! {
    /// protocol tracker of the history running on this thread (reset at every open)
    static SCHED: std::cell::RefCell<crate::c09::SchedTracker> = std::cell::RefCell::new(crate::c09::SchedTracker::default());
}

thread_local! {
    /// sequence numbers of the snapshots the client holds: (now, at the previous quiescent point)
    static LIVE_SNAPS: std::cell::RefCell<(std::collections::BTreeSet<u64>, std::collections::BTreeSet<u64>)> = std::cell::RefCell::new(Default::default());
}

thread_local! {
    /// `max_file_size` of the database instance running on this thread (the flush-level model needs it)
    static MAX_FILE_SIZE: std::cell::Cell<u64> = const { std::cell::Cell::new(0) };
}

thread_local! {
    /// how many more states of the running history are checked against the persisted-state relation
    static PERSIST_BUDGET: std::cell::Cell<u32> = const { std::cell::Cell::new(0) };
}

thread_local! {
    /// seek-charge tracker of the history running on this thread (see `seekcheck.rs`)
    static SEEK: std::cell::RefCell<crate::seekcheck::SeekTracker> = std::cell::RefCell::new(crate::seekcheck::SeekTracker::default());
}

thread_local! {
    /// sizes of the table files on the simulated filesystem of the history running on this thread
    static TABLE_SIZES: std::cell::RefCell<Option<SimFs>> = std::cell::RefCell::new(None);
}

pub fn sched_reset() {
    SCHED.with(|t| { let mut t = t.borrow_mut(); t.reset(); t.checked = 0; });
}

#[derive(Clone, Debug, PartialEq, Eq)]
pub struct Cfg {
    pub memtable: usize,
    pub file: u64,
    pub block: usize,
    pub reuse: bool,
    pub bloom_bits: usize,
    /// every open of the history uses ONE `DbOptions` value (struct update from a per-history base),
    /// as an application that keeps its options around does: the block cache inside the options is
    /// then shared by all instances of the history, across close and reopen
    pub share: bool,
}

thread_local! {
    /// the `DbOptions` every sharing open of the history running on this thread is derived from
    static BASE_OPTS: std::cell::RefCell<Option<DbOptions>> = const { std::cell::RefCell::new(None) };
}

/// forget the shared options (a new history starts)
pub fn reset_shared_options() {
    BASE_OPTS.with(|b| *b.borrow_mut() = None);
}

impl Cfg {
    pub fn to_tok(&self) -> String {
        if self.share {
            format!("{}/{}/{}/{}/{}/1", self.memtable, self.file, self.block, if self.reuse { 1 } else { 0 }, self.bloom_bits)
        } else {
            format!("{}/{}/{}/{}/{}", self.memtable, self.file, self.block, if self.reuse { 1 } else { 0 }, self.bloom_bits)
        }
    }
    pub fn from_tok(s: &str) -> Option<Cfg> {
        let p: Vec<&str> = s.split('/').collect();
        if p.len() != 5 && p.len() != 6 {
            return None;
        }
        Some(Cfg {
            memtable: p[0].parse().ok()?,
            file: p[1].parse().ok()?,
            block: p[2].parse().ok()?,
            reuse: p[3] == "1",
            bloom_bits: p[4].parse().ok()?,
            share: p.get(5).map_or(false, |x| *x == "1"),
        })
    }
    pub fn gen(rng: &mut Prng) -> Cfg {
        Cfg {
            memtable: *rng.pick(&[256usize, 512, 1024, 2048, 4096, 8192]),
            file: *rng.pick(&[256u64, 512, 1024, 1536, 2048, 4096, 8192]),
            block: *rng.pick(&[16usize, 64, 128, 256, 1024, 4096]),
            reuse: rng.chance(1, 2),
            bloom_bits: *rng.pick(&[1usize, 4, 10, 10, 16, 64]),
            share: rng.chance(1, 2),
        }
    }
    pub fn options(&self, fs: &SimFs) -> DbOptions {
        DbOptions {
            db_path: DB_PATH.to_string(),
            max_memtable_size: self.memtable,
            max_file_size: self.file,
            max_block_size: self.block,
            filesystem_provider: fs.dyn_fs(),
            filter_policy: Arc::new(raindb::BloomFilterPolicy::new(self.bloom_bits)),
            create_if_missing: true,
            error_if_exists: false,
            reuse_log_files: self.reuse,
            ..(if self.share {
                BASE_OPTS.with(|b| b.borrow_mut().get_or_insert_with(DbOptions::default).clone())
            } else {
                DbOptions::default()
            })
        }
    }
}

#[derive(Clone, Debug, PartialEq, Eq)]
pub enum Op {
    Put(Vec<u8>, Vec<u8>),
    Del(Vec<u8>),
    /// (key, Some(value)=put / None=delete)
    Batch(Vec<(Vec<u8>, Option<Vec<u8>>)>),
    Get(Vec<u8>),
    /// full forward scan at the latest state
    Scan,
    /// compact_range(lo, hi); None = open end
    Compact(Option<Vec<u8>>, Option<Vec<u8>>),
    /// close and reopen with this configuration
    Reopen(Cfg),
    /// close WITHOUT waiting for the background work: the compaction thread is parked at the k-th
    /// iteration of a table compaction's loop (writes overwrite known keys until one starts), the
    /// close begins, the thread is released and sees the shutdown flag; then reopen with this
    /// configuration. An interrupted compaction must not be installed.
    CloseBusy(u32, Cfg),
    /// compact_range(lo, hi) on another thread with the compaction thread parked at the k-th
    /// iteration of the first table compaction's loop; while it is parked the listed puts are made
    /// (until the memtable has been rotated), then it is released: the pending memtable is flushed
    /// from inside the compaction loop, on a version whose compaction is half done
    CompactBusy(Option<Vec<u8>>, Option<Vec<u8>>, u32, Vec<(Vec<u8>, Vec<u8>)>),
    /// take snapshot with this id
    Snap(u32),
    /// release snapshot id
    Release(u32),
    /// get at snapshot id
    GetAt(u32, Vec<u8>),
    /// full scan at snapshot id
    ScanAt(u32),
    /// wait for background work to finish, then check the quiescent-state properties
    Idle,
    /// `n` puts of keys `fill-<start+i>` with values of `len` bytes (forces memtable flushes;
    /// disjoint starts give disjoint files, hence trivial moves)
    Fill(u32, u32, u32),
    /// the same get `n` times (seek-triggered compaction)
    GetN(Vec<u8>, u32),
    /// size limit of level 1 in bytes (deeper levels 10x each) for this history: makes size-triggered
    /// compactions of deeper levels (compaction pointers, round-robin picking) happen with small data
    LevelLimit(u64),
    /// order in which the filesystem lists directories (0 sorted, 1 reversed, 2 rotated) - the trait
    /// promises none
    ListOrder(u8),
    /// foreign entries inside the database directory (a sub-directory sorting before MANIFEST-*, a
    /// file with an unparsable name in the main and in the data folder): they must be left alone and
    /// must not disturb the deletion pass
    Foreign,
    /// `n` fresh iterators, each seeks to the key and reads one entry (every new iterator samples
    /// its first read: read-sample charges and the compactions they trigger)
    SeekN(Vec<u8>, u32),
    /// create an iterator (pins the current version and memtables), keep it open
    IterOpen(u32),
    /// scan the kept iterator completely, compare with the state at its creation, drop it
    IterClose(u32),
}

fn val_tok(v: &[u8]) -> String {
    // long values are stored as length + fill byte when they are uniform
    if v.len() > 24 && v.iter().all(|b| *b == v[0]) {
        format!("r{}x{:02x}", v.len(), v[0])
    } else {
        hex(v)
    }
}
fn val_untok(s: &str) -> Option<Vec<u8>> {
    if let Some(rest) = s.strip_prefix('r') {
        let (n, b) = rest.split_once('x')?;
        let n: usize = n.parse().ok()?;
        let b = u8::from_str_radix(b, 16).ok()?;
        Some(vec![b; n])
    } else {
        unhex(s)
    }
}

impl Op {
    pub fn to_tok(&self) -> String {
        match self {
            Op::Put(k, v) => format!("P:{}:{}", hex(k), val_tok(v)),
            Op::Del(k) => format!("D:{}", hex(k)),
            Op::Batch(es) => format!(
                "B:{}",
                es.iter()
                    .map(|(k, v)| match v {
                        Some(v) => format!("{}={}", hex(k), val_tok(v)),
                        None => format!("{}!", hex(k)),
                    })
                    .collect::<Vec<_>>()
                    .join(",")
            ),
            Op::Get(k) => format!("G:{}", hex(k)),
            Op::Scan => "S".to_string(),
            Op::Compact(a, b) => format!(
                "C:{}:{}",
                a.as_ref().map_or("*".to_string(), |x| hex(x)),
                b.as_ref().map_or("*".to_string(), |x| hex(x))
            ),
            Op::Reopen(c) => format!("R:{}", c.to_tok()),
            Op::CloseBusy(k, c) => format!("Z:{k}:{}", c.to_tok()),
            Op::CompactBusy(a, b, k, ws) => format!(
                "K:{}:{}:{k}:{}",
                a.as_ref().map_or("*".to_string(), |x| hex(x)),
                b.as_ref().map_or("*".to_string(), |x| hex(x)),
                ws.iter().map(|(k, v)| format!("{}={}", hex(k), val_tok(v))).collect::<Vec<_>>().join(",")
            ),
            Op::Snap(i) => format!("N:{i}"),
            Op::Release(i) => format!("X:{i}"),
            Op::GetAt(i, k) => format!("A:{i}:{}", hex(k)),
            Op::ScanAt(i) => format!("T:{i}"),
            Op::Idle => "I".to_string(),
            Op::Fill(s, n, l) => format!("F:{s}:{n}:{l}"),
            Op::GetN(k, n) => format!("M:{}:{n}", hex(k)),
            Op::SeekN(k, n) => format!("J:{}:{n}", hex(k)),
            Op::LevelLimit(n) => format!("L:{n}"),
            Op::ListOrder(n) => format!("Y:{n}"),
            Op::Foreign => "W".to_string(),
            Op::IterOpen(i) => format!("O:{i}"),
            Op::IterClose(i) => format!("Q:{i}"),
        }
    }
    pub fn from_tok(s: &str) -> Option<Op> {
        let p: Vec<&str> = s.split(':').collect();
        Some(match p[0] {
            "P" => Op::Put(unhex(p.get(1)?)?, val_untok(p.get(2)?)?),
            "D" => Op::Del(unhex(p.get(1)?)?),
            "B" => {
                let mut es = vec![];
                for e in p.get(1)?.split(',').filter(|x| !x.is_empty()) {
                    if let Some(k) = e.strip_suffix('!') {
                        es.push((unhex(k)?, None));
                    } else {
                        let (k, v) = e.split_once('=')?;
                        es.push((unhex(k)?, Some(val_untok(v)?)));
                    }
                }
                Op::Batch(es)
            }
            "G" => Op::Get(unhex(p.get(1)?)?),
            "S" => Op::Scan,
            "C" => {
                let a = if *p.get(1)? == "*" { None } else { Some(unhex(p[1])?) };
                let b = if *p.get(2)? == "*" { None } else { Some(unhex(p[2])?) };
                Op::Compact(a, b)
            }
            "R" => Op::Reopen(Cfg::from_tok(p.get(1)?)?),
            "Z" => Op::CloseBusy(p.get(1)?.parse().ok()?, Cfg::from_tok(p.get(2)?)?),
            "K" => {
                let a = if *p.get(1)? == "*" { None } else { Some(unhex(p[1])?) };
                let b = if *p.get(2)? == "*" { None } else { Some(unhex(p[2])?) };
                let mut ws = vec![];
                for e in p.get(4)?.split(',').filter(|x| !x.is_empty()) {
                    let (k, v) = e.split_once('=')?;
                    ws.push((unhex(k)?, val_untok(v)?));
                }
                Op::CompactBusy(a, b, p.get(3)?.parse().ok()?, ws)
            }
            "N" => Op::Snap(p.get(1)?.parse().ok()?),
            "X" => Op::Release(p.get(1)?.parse().ok()?),
            "A" => Op::GetAt(p.get(1)?.parse().ok()?, unhex(p.get(2)?)?),
            "T" => Op::ScanAt(p.get(1)?.parse().ok()?),
            "I" => Op::Idle,
            "F" => Op::Fill(p.get(1)?.parse().ok()?, p.get(2)?.parse().ok()?, p.get(3)?.parse().ok()?),
            "M" => Op::GetN(unhex(p.get(1)?)?, p.get(2)?.parse().ok()?),
            "J" => Op::SeekN(unhex(p.get(1)?)?, p.get(2)?.parse().ok()?),
            "L" => Op::LevelLimit(p.get(1)?.parse().ok()?),
            "Y" => Op::ListOrder(p.get(1)?.parse().ok()?),
            "W" => Op::Foreign,
            "O" => Op::IterOpen(p.get(1)?.parse().ok()?),
            "Q" => Op::IterClose(p.get(1)?.parse().ok()?),
            _ => return None,
        })
    }
}

#[derive(Clone, Debug)]
pub struct History {
    pub cfg: Cfg,
    pub ops: Vec<Op>,
}

impl History {
    pub fn to_line(&self, comp: &str) -> String {
        format!("{comp} cfg={} ops={}", self.cfg.to_tok(), self.ops.iter().map(|o| o.to_tok()).collect::<Vec<_>>().join(";"))
    }
    pub fn from_line(line: &str) -> Option<History> {
        let mut cfg = None;
        let mut ops = vec![];
        for tok in line.split_whitespace().skip(1) {
            let (k, v) = tok.split_once('=')?;
            match k {
                "cfg" => cfg = Cfg::from_tok(v),
                "ops" => {
                    for o in v.split(';').filter(|x| !x.is_empty()) {
                        ops.push(Op::from_tok(o)?);
                    }
                }
                _ => {}
            }
        }
        Some(History { cfg: cfg?, ops })
    }
}

/// a failure observed while running a history
#[derive(Clone, Debug)]
pub struct Obs {
    pub sig: String,
    pub what: String,
    /// index of the operation at which it was observed
    pub at: usize,
}

#[derive(Default, Clone, Debug)]
pub struct Stats {
    pub gets: u64,
    pub scans: u64,
    pub flushes: u64,
    pub compactions: u64,
    pub trivial_moves: u64,
    pub manual_compactions: u64,
    pub deletes_of_files: u64,
    pub reopens: u64,
    pub max_l0: usize,
    pub deepest_level: usize,
    pub max_files_in_level: usize,
    pub snapshots_alive_at_compaction: u64,
    pub idle_checks: u64,
    pub entries_dropped: u64,
    pub potential_drop: u64,
    pub closes_during_table_compaction: u64,
    pub flushes_staged_inside_a_compaction: u64,
    pub lingering: u64,
    pub events_validated: u64,
    pub selections_checked: u64,
    pub sched_steps_checked: u64,
    pub states_validated: u64,
    pub retention_checks: u64,
    pub seek_gets_checked: u64,
    pub seek_samples_checked: u64,
    pub seek_charges: u64,
    pub seek_events_skipped: u64,
    pub seek_budgets_checked: u64,
    pub seek_compactions_recorded: u64,
    pub seek_compactions_by_model: u64,
    pub flush_levels_checked: u64,
    pub persist_relation_checked: u64,
    pub snapshot_lists_checked: u64,
    /// deletion passes (`remove_obsolete_files`) compared with the model's per-name decision
    pub obsolete_passes: u64,
    pub obsolete_names: u64,
    pub obsolete_deleted: u64,
    pub obsolete_foreign_names: u64,
    /// iterations of `make_room_for_write` compared with the model's branch
    pub room_iterations: u64,
    pub room_waits: u64,
    pub room_rotations: u64,
    pub room_delays: u64,
    pub room_forced: u64,
    /// whole calls of `make_room_for_write` run through the model (`room.call`)
    pub room_calls: u64,
    pub room_calls_with_wait: u64,
    pub room_max_iterations: u64,
    pub persist_directory_exact: u64,
    pub flushes_below_level0: u64,
    pub output_loops_checked: u64,
    pub grandparent_rule_calls: u64,
    pub grandparent_rules_checked: u64,
    pub move_decisions_checked: u64,
    pub grandparent_rule_stops: u64,
    pub outputs_closed_by_size: u64,
    pub manual_ranges_checked: u64,
    pub manual_rounds_checked: u64,
    pub manual_rounds_selecting: u64,
    pub manual_requests_checked: u64,
    pub manual_max_rounds_of_a_request: u64,
}

pub struct RunOut {
    pub drift: Vec<String>,
    pub obs: Vec<Obs>,
    pub stats: Stats,
    pub completed_ops: usize,
}

pub type Oracle = BTreeMap<Vec<u8>, Vec<u8>>;

fn fill_key(i: u32) -> Vec<u8> {
    format!("fill-{:05}", i).into_bytes()
}

/// what the checks look at; a property's component enables what it decides
#[derive(Clone, Debug)]
pub struct Checks {
    /// verify the LSM shape (C10) at quiescent points
    pub shape: bool,
    /// verify the directory contents (C11) at quiescent points
    pub files: bool,
    /// full dumps before/after compactions (C07)
    pub dumps: bool,
    /// path of the Lean model driver for trace validation (None = oracle checks only)
    pub drv_path: Option<String>,
    /// after a forced deletion pass at a reader-free quiescent point, compare the directory with
    /// the retention model (C11)
    pub retention_model: bool,
}

impl Default for Checks {
    fn default() -> Self {
        Checks { shape: true, files: true, dumps: true, drv_path: None, retention_model: false }
    }
}

// ------------------------------------------------------------------------------------------
// trace validation against the Lean LSM model

fn ent_tok(e: &raindb::verif::Entry) -> String {
    format!("{}/{}/{}/{}", hex(&e.0), e.1, if e.2 == 1 { "p" } else { "d" }, hex(&e.3))
}
fn ents_tok(es: &[raindb::verif::Entry]) -> String {
    if es.is_empty() {
        "_".into()
    } else {
        es.iter().map(ent_tok).collect::<Vec<_>>().join(",")
    }
}
fn file_tok(f: &raindb::verif::FileDump, entries: Option<&Vec<raindb::verif::Entry>>) -> String {
    format!(
        "{}@{}/{}@{}/{}@{}",
        f.number,
        hex(&f.smallest.0),
        f.smallest.1,
        hex(&f.largest.0),
        f.largest.1,
        entries.map_or("_".to_string(), |e| ents_tok(e))
    )
}
pub fn file_tok_pub(f: &raindb::verif::FileDump) -> String {
    file_tok(f, None)
}
pub fn levels_tok(levels: &[Vec<raindb::verif::FileDump>], entries: &BTreeMap<u64, Vec<raindb::verif::Entry>>) -> String {
    levels
        .iter()
        .map(|l| if l.is_empty() { "_".to_string() } else { l.iter().map(|f| file_tok(f, entries.get(&f.number))).collect::<Vec<_>>().join(";") })
        .collect::<Vec<_>>()
        .join("|")
}
fn brief(levels: &[Vec<raindb::verif::FileDump>]) -> Vec<Vec<u64>> {
    levels
        .iter()
        .map(|l| {
            let mut v: Vec<u64> = l.iter().map(|f| f.number).collect();
            v.sort();
            v
        })
        .collect()
}
fn parse_brief(s: &str) -> Vec<Vec<u64>> {
    s.split('|')
        .map(|l| {
            let mut v: Vec<u64> = if l == "_" { vec![] } else { l.split(',').filter_map(|x| x.parse().ok()).collect() };
            v.sort();
            v
        })
        .collect()
}

fn save_request(req: &str) -> String {
    use std::hash::{Hash, Hasher};
    let dir = std::env::var("VERIF_REQ_DIR").unwrap_or_else(|_| "/verif/replays/requests".to_string());
    let _ = std::fs::create_dir_all(&dir);
    let mut h = std::collections::hash_map::DefaultHasher::new();
    req.hash(&mut h);
    let path = format!("{dir}/{:016x}.req", h.finish());
    let _ = std::fs::write(&path, format!("{req}\n"));
    path
}

/// Validate the recorded internal transitions against the model's step relation. Returns the
/// model's level layout after the last event (to chain with the next batch of events).
/// Manual compaction against the model of Rain/Manual.lean: the deepest level `compact_range` finds,
/// the levels it then builds requests for, what every round of a request selects and where the
/// request continues, and the bound on the number of rounds of a request (theorem
/// C09_manual_rounds_bounded: every round takes at least one file out of the level; files that
/// flushes and other compactions add to the level meanwhile are counted in).
/// Every iteration of `DB::make_room_for_write` against the model's branch (`Rain.MakeRoom.branch`;
/// theorems in `Rain/Props/MakeRoom.lean`): the event carries what the iteration read and the
/// branch it took. The hypothesis of `C09_prev_wal_error_unreachable` is evaluated on every view.
pub fn validate_room(drv: &mut crate::drv::Drv, events: &[Event], obs: &mut Vec<Obs>, stats: &mut Stats, at: usize) {
    let b = |x: bool| if x { "1" } else { "0" };
    let items: Vec<(&raindb::verif::RoomView, &str)> = events.iter().filter_map(|e| if let Event::MakeRoom { view, branch } = e { Some((view, *branch)) } else { None }).collect();
    for chunk in items.chunks(400) {
        let req = format!(
            "room.branches {}",
            chunk.iter().map(|(v, _)| format!("{},{},{},{},{},{},{},{}", b(v.force), b(v.allow_delay), b(v.bad), v.level0_files, b(v.fits), b(v.empty), b(v.imm), b(v.prev_wal))).collect::<Vec<_>>().join(";")
        );
        let ans = drv.ask(&req);
        if ans == "no-model" {
            return;
        }
        let got: Vec<&str> = ans.split(',').collect();
        if got.len() != chunk.len() {
            obs.push(Obs { sig: "c09:make-room-outside-the-verified-decision".into(), what: format!("the model does not answer ({ans}): {req}"), at });
            return;
        }
        for ((v, branch), g) in chunk.iter().zip(got.iter()) {
            stats.room_iterations += 1;
            match *branch {
                "waitImm" | "waitL0" => stats.room_waits += 1,
                "rotate" => stats.room_rotations += 1,
                "delay" => stats.room_delays += 1,
                _ => {}
            }
            if v.force {
                stats.room_forced += 1;
            }
            let model_branch = g.split(':').next().unwrap_or("");
            if model_branch != *branch {
                obs.push(Obs { sig: "c09:make-room-outside-the-verified-decision".into(), what: format!("make_room_for_write read {v:?} and took the branch {branch}; the model (Rain.MakeRoom.branch, theorems C09_make_room_never_spins / C09_make_room_waits_only_when_blocked / C09_forced_call_rotates_before_ok) takes {model_branch}"), at });
            }
            if v.prev_wal && !v.imm {
                obs.push(Obs { sig: "c09:make-room-state-outside-the-verified-hypothesis".into(), what: format!("make_room_for_write read {v:?}: a previous WAL number without an immutable memtable (hypothesis of C09_prev_wal_error_unreachable)"), at });
            }
        }
    }
    // whole calls: the iterations are grouped by the call number the hook gives them; a call is
    // complete when one of its iterations returns. The model is run on the views of the call
    // (`room.call`): its branches must be the recorded ones, the recorded loop variables the
    // model's (chain), and the hypothesis `Coherent` of C09_make_room_never_spins must hold
    // (evaluated by coherentB, proved sound: C09_coherentB_sound).
    ROOM_CALLS.with(|pending| {
        let mut pending = pending.borrow_mut();
        for (v, branch) in &items {
            pending.entry(v.call).or_default().push(((*v).clone(), *branch));
        }
        let complete: Vec<u64> = pending.iter().filter(|(_, its)| its.last().map_or(false, |(_, b)| matches!(*b, "errBad" | "proceed" | "errPrevWal"))).map(|(c, _)| *c).collect();
        for c in complete {
            let its = pending.remove(&c).unwrap();
            let req = format!(
                "room.call {} {}",
                b(its[0].0.force),
                its.iter().map(|(v, _)| format!("{},{},{},{},{},{},{},{}", b(v.force), b(v.allow_delay), b(v.bad), v.level0_files, b(v.fits), b(v.empty), b(v.imm), b(v.prev_wal))).collect::<Vec<_>>().join(";")
            );
            let ans = drv.ask(&req);
            if ans == "no-model" {
                return;
            }
            stats.room_calls += 1;
            stats.room_max_iterations = stats.room_max_iterations.max(its.len() as u64);
            if its.iter().any(|(_, b)| b.starts_with("wait")) {
                stats.room_calls_with_wait += 1;
            }
            let recorded = its.iter().map(|(_, b)| *b).collect::<Vec<_>>().join(",");
            let mut parts = ans.split(' ');
            let model_branches = parts.next().unwrap_or("");
            let flags: Vec<&str> = parts.collect();
            if model_branches != recorded || !flags.contains(&"chain=1") {
                obs.push(Obs { sig: "c09:make-room-outside-the-verified-decision".into(), what: format!("a call of make_room_for_write took the branches [{recorded}]; the model run on what its iterations read answers [{ans}] (request: {req})"), at });
            } else if !flags.contains(&"coherent=1") {
                obs.push(Obs { sig: "c09:make-room-state-outside-the-verified-hypothesis".into(), what: format!("a call of make_room_for_write saw a non-empty memtable after its own rotation (hypothesis Coherent of C09_make_room_never_spins; branches [{recorded}], request: {req})"), at });
            }
        }
    });
}

/// Every deletion pass of the real database against the model's decision per NAME
/// (`Rain.FileNames.deletes`, about which `Rain/Props/FileNames.lean` proves that live names survive,
/// foreign names are never touched and the pass over names is the pass over numbers): the event
/// carries what `remove_obsolete_files` consulted, every path it looked at and what it marked.
pub fn validate_obsolete(drv: &mut crate::drv::Drv, events: &[Event], obs: &mut Vec<Obs>, stats: &mut Stats, at: usize) {
    for ev in events {
        let Event::ObsoletePass { live, wal_number, prev_wal_number, manifest_number, listed, listing, deleted } = ev else { continue };
        stats.obsolete_passes += 1;
        // the pass must LOOK at every entry of the three listings that is not a directory (the model's
        // pass is a filter over the whole listing: a scan that stops early keeps dead files for ever)
        {
            let looked: std::collections::BTreeSet<&String> = listed.iter().map(|(_, p)| p).collect();
            for (folder, path) in listing {
                if looked.contains(path) {
                    continue;
                }
                let is_dir = TABLE_SIZES.with(|f| f.borrow().as_ref().map_or(true, |fs| {
                    use raindb::fs::FileSystem;
                    fs.is_dir(std::path::Path::new(path)).unwrap_or(true) || fs.read_file(std::path::Path::new(path)).is_none()
                }));
                if !is_dir {
                    obs.push(Obs { sig: "c11:deletion-pass-outside-the-verified-decision".into(), what: format!("the deletion pass never looked at {path} although list_dir returned it for the {folder} folder: the model's pass (Rain.FileNames.survivors) decides on every name of the listing"), at });
                }
            }
        }
        let marked: std::collections::BTreeSet<&String> = deleted.iter().collect();
        for folder in ["wal", "data", "main"] {
            let paths: Vec<&String> = listed.iter().filter(|(f, _)| *f == folder).map(|(_, p)| p).collect();
            let names: Vec<&str> = paths.iter().map(|p| p.rsplit('/').next().unwrap_or("")).collect();
            if names.is_empty() || names.iter().any(|n| n.is_empty() || *n == "." || *n == "..") {
                continue;
            }
            let req = format!(
                "fname.pass {folder} {} {wal_number} {} {manifest_number} {}",
                if live.is_empty() { "-".to_string() } else { live.iter().map(|n| n.to_string()).collect::<Vec<_>>().join(",") },
                prev_wal_number.map_or("-".to_string(), |n| n.to_string()),
                names.iter().map(|n| crate::fnames::enc(n)).collect::<Vec<_>>().join(";")
            );
            let ans = drv.ask(&req);
            if ans == "no-model" {
                return;
            }
            if ans.len() != names.len() {
                obs.push(Obs { sig: "c11:deletion-pass-outside-the-verified-decision".into(), what: format!("the model does not answer the deletion pass request ({ans}): {req}"), at });
                continue;
            }
            for ((path, name), bit) in paths.iter().zip(names.iter()).zip(ans.chars()) {
                stats.obsolete_names += 1;
                let real = marked.contains(*path);
                if real {
                    stats.obsolete_deleted += 1;
                }
                // a name of the database's own, still needed according to what the pass consulted
                let needed = match folder {
                    "data" => name.strip_suffix(".rdb").and_then(|n| n.parse::<u64>().ok()).map_or(false, |n| n.to_string() + ".rdb" == *name && live.contains(&n)),
                    "wal" => name.strip_prefix("wal-").and_then(|n| n.strip_suffix(".log")).and_then(|n| n.parse::<u64>().ok()).map_or(false, |n| format!("wal-{n}.log") == *name && (n >= *wal_number || Some(n) == *prev_wal_number)),
                    _ => *name == "CURRENT" || *name == "LOCK" || name.strip_prefix("MANIFEST-").and_then(|n| n.strip_suffix(".manifest")).and_then(|n| n.parse::<u64>().ok()).map_or(false, |n| format!("MANIFEST-{n}.manifest") == *name && n >= *manifest_number),
                };
                if crate::fnames::own_name(name).is_none() {
                    stats.obsolete_foreign_names += 1;
                }
                if real && needed {
                    obs.push(Obs { sig: "c11:live-file-marked-for-deletion".into(), what: format!("the deletion pass marked {path} although it consulted live tables {live:?}, WAL number {wal_number}, previous WAL {prev_wal_number:?}, manifest {manifest_number}: a file the database needs is removed"), at });
                } else if real != (bit == '1') {
                    obs.push(Obs { sig: "c11:deletion-pass-outside-the-verified-decision".into(), what: format!("the deletion pass {} {path} (folder {folder}; live tables {live:?}, WAL number {wal_number}, previous WAL {prev_wal_number:?}, manifest {manifest_number}) but the model's decision (Rain.FileNames.deletes, theorems C11_live_names_survive / C11_foreign_names_survive / C11_name_level_pass_is_the_number_level_pass) is to {} it", if real { "marked" } else { "kept" }, if bit == '1' { "delete" } else { "keep" }), at });
                }
            }
        }
    }
}

pub fn validate_manual(drv: &mut crate::drv::Drv, events: &[Event], obs: &mut Vec<Obs>, stats: &mut Stats, at: usize) {
    let bound = |k: &Option<Vec<u8>>| k.as_ref().map_or("*".to_string(), |k| hex(k));
    let ikey = |k: &Option<raindb::verif::IKey>| k.as_ref().map_or("*".to_string(), |k| hex(&k.0));
    let sig = "c07:manual-compaction-outside-the-verified-model";
    // (max level, levels requested so far) of the compact_range call in progress
    let mut range: Option<(usize, Vec<usize>)> = None;
    // the request in progress: level, files of the level at its first round, files added since, rounds
    // that selected something, where the model says it continues
    struct Req {
        level: usize,
        first: Option<usize>,
        added: usize,
        rounds: usize,
        next: Option<String>,
    }
    let mut req: Option<Req> = None;
    let close_range = |range: &mut Option<(usize, Vec<usize>)>, obs: &mut Vec<Obs>| {
        if let Some((max, seen)) = range.take() {
            let want: Vec<usize> = (0..max).collect();
            if seen != want {
                obs.push(Obs { sig: sig.into(), what: format!("compact_range found {max} as the deepest level with overlapping files and then built requests for levels {seen:?}; the model visits {want:?}"), at });
            }
        }
    };
    for ev in events {
        match ev {
            Event::ManualRange { lo, hi, levels, max_level } => {
                close_range(&mut range, obs);
                let a = drv.ask(&format!("manual.levels {} {} {}", bound(lo), bound(hi), levels_tok(levels, &BTreeMap::new())));
                if a == "no-model" {
                    return;
                }
                stats.manual_ranges_checked += 1;
                if a != max_level.to_string() {
                    obs.push(Obs { sig: sig.into(), what: format!("compact_range({} .. {}) on {:?}: deepest level with overlapping files {max_level}, the model of has_overlap_in_level gives {a}", bound(lo), bound(hi), brief(levels)), at });
                }
                range = Some((*max_level, vec![]));
                req = None;
            }
            Event::ManualRequest { level, .. } => {
                if let Some((_, seen)) = range.as_mut() {
                    seen.push(*level);
                }
                stats.manual_requests_checked += 1;
                req = Some(Req { level: *level, first: None, added: 0, rounds: 0, next: None });
            }
            Event::Flush { level, size, .. } if *size > 0 => {
                if let Some(r) = req.as_mut() {
                    if *level == r.level {
                        r.added += 1;
                    }
                }
            }
            Event::TrivialMove { level, .. } => {
                if let Some(r) = req.as_mut() {
                    if *level + 1 == r.level {
                        r.added += 1;
                    }
                }
            }
            Event::Compaction { level, outputs, manual, .. } => {
                if let Some(r) = req.as_mut() {
                    if *level + 1 == r.level && !*manual {
                        r.added += outputs.len();
                    }
                }
            }
            Event::ManualRound { level, begin, end, levels, max_file_size, selected, next_begin } => {
                let sizes: Vec<String> = levels.iter().flatten().map(|f| format!("{}={}", f.number, f.size)).collect();
                let a = drv.ask(&format!(
                    "manual.round {max_file_size} {level} {} {} {} {}",
                    ikey(begin),
                    ikey(end),
                    levels_tok(levels, &BTreeMap::new()),
                    if sizes.is_empty() { "_".to_string() } else { sizes.join(",") }
                ));
                if a == "no-model" {
                    return;
                }
                stats.manual_rounds_checked += 1;
                let nums = |v: &Vec<u64>| if v.is_empty() { "_".to_string() } else { v.iter().map(|n| n.to_string()).collect::<Vec<_>>().join(",") };
                let real = match (selected, next_begin) {
                    (Some((i0, i1)), Some(k)) => format!("{} {} {}/{}", nums(i0), nums(i1), hex(&k.0), k.1),
                    _ => "done".to_string(),
                };
                if a != real {
                    obs.push(Obs { sig: sig.into(), what: format!("round of the manual compaction of level {level}, range {} .. {}, max_file_size {max_file_size}, on {:?}: the database selected [{real}] (level files, parent files, next start), the model of VersionSet::compact_range gives [{a}]", ikey(begin), ikey(end), brief(levels)), at });
                }
                if let Some(r) = req.as_mut() {
                    if r.level == *level {
                        // the request continues where the previous round said it would
                        if let (Some(want), Some(b)) = (r.next.as_ref(), begin.as_ref()) {
                            let got = format!("{}/{}", hex(&b.0), b.1);
                            if &got != want {
                                obs.push(Obs { sig: sig.into(), what: format!("manual compaction of level {level}: after a round that ended at {want} the request continues at {got}"), at });
                            }
                        }
                        if r.first.is_none() {
                            r.first = Some(levels.get(*level).map_or(0, |l| l.len()));
                        }
                        if selected.is_some() {
                            r.rounds += 1;
                            stats.manual_rounds_selecting += 1;
                            stats.manual_max_rounds_of_a_request = stats.manual_max_rounds_of_a_request.max(r.rounds as u64);
                            r.next = real.split(' ').nth(2).map(|x| x.to_string());
                            let limit = r.first.unwrap_or(0) + r.added;
                            if r.rounds > limit {
                                obs.push(Obs { sig: "c09:manual-compaction-makes-no-progress".into(), what: format!("the manual compaction request for level {level} is in its round {} although the level had {} files when it started and {} were added since: every round must take at least one file out of the level (C09_manual_rounds_bounded)", r.rounds, r.first.unwrap_or(0), r.added), at });
                            }
                        } else {
                            req = None;
                        }
                    }
                }
            }
            _ => {}
        }
    }
    close_range(&mut range, obs);
}

pub fn validate_events(drv: &mut crate::drv::Drv, events: &[Event], obs: &mut Vec<Obs>, stats: &mut Stats, at: usize, chain: &mut Option<Vec<Vec<u64>>>) {
    validate_manual(drv, events, obs, stats, at);
    for ev in events {
        if std::env::var("VERIF_TRACE").is_ok() {
            match ev {
                Event::Flush { file, level, size, .. } => eprintln!("raw flush file={file} level={level} size={size}"),
                Event::TrivialMove { file, level, .. } => eprintln!("raw move file={file} level={level}"),
                Event::Compaction { level, inputs0, inputs1, outputs, .. } => eprintln!("raw compaction level={level} {:?}+{:?} -> {:?}", inputs0, inputs1, outputs),
                _ => {}
            }
        }
        let mut request = String::new();
        let (levels_before, answer, kind): (&Vec<Vec<raindb::verif::FileDump>>, String, &str) = match ev {
            Event::Flush { file, level, size, levels_before, entries, during_table_compaction } => {
                if *size == 0 {
                    continue;
                }
                request = format!("lsm.flush 0 {} {} {} {}", levels_tok(levels_before, &BTreeMap::new()), file, level, ents_tok(entries));
                let a = drv.ask(&request);
                // the level itself: the model of pick_level_for_memtable_output on the version the
                // flush was based on (a flush inside a table compaction stays at level 0)
                if let (Some(first), Some(last)) = (entries.first(), entries.last()) {
                    let want = if *during_table_compaction {
                        "0".to_string()
                    } else {
                        let sizes: Vec<String> = levels_before.iter().flatten().map(|f| format!("{}={}", f.number, f.size)).collect();
                        drv.ask(&format!(
                            "flush.level {} {} {} {}/{}",
                            MAX_FILE_SIZE.with(|m| m.get()),
                            levels_tok(levels_before, &BTreeMap::new()),
                            if sizes.is_empty() { "_".to_string() } else { sizes.join(",") },
                            hex(&first.0),
                            hex(&last.0)
                        ))
                    };
                    if want != "no-model" {
                        stats.flush_levels_checked += 1;
                        if *level > 0 {
                            stats.flushes_below_level0 += 1;
                        }
                        if want != level.to_string() {
                            obs.push(Obs { sig: "c07:flush-level-outside-the-verified-model".into(), what: format!("flush level: table {file} (user keys {} .. {}) was placed at level {level}{}, the model of pick_level_for_memtable_output on the version it was based on ({:?}) gives {want}", hex(&first.0), hex(&last.0), if *during_table_compaction { " from inside a table compaction" } else { "" }, brief(levels_before)), at });
                        }
                    }
                }
                (levels_before, a, "flush")
            }
            Event::TrivialMove { file, level, levels_before } => {
                // the decision: the model of is_trivial_move must say "move" for this file alone
                {
                    let sizes: Vec<String> = levels_before.get(*level + 2).map_or(vec![], |l| l.iter().map(|f| format!("{}={}", f.number, f.size)).collect());
                    let d = drv.ask(&format!("cut.trivial {} {} {} _ {} {}", levels_tok(levels_before, &BTreeMap::new()), level, file, if sizes.is_empty() { "_".to_string() } else { sizes.join(",") }, MAX_FILE_SIZE.with(|m| m.get())));
                    if d != "no-model" {
                        stats.move_decisions_checked += 1;
                        if d != "true" {
                            obs.push(Obs { sig: "c07:trivial-move-decision-outside-the-verified-model".into(), what: format!("table {file} was moved from level {level} without merging on {:?}; the model of is_trivial_move (one level file, no parent file, grandparent bytes within 10 x max_file_size = {}) answers {d}", brief(levels_before), MAX_FILE_SIZE.with(|m| m.get())), at });
                        }
                    }
                }
                request = format!("lsm.move {} {} {}", levels_tok(levels_before, &BTreeMap::new()), file, level);
                let a = drv.ask(&request);
                (levels_before, a, "trivial-move")
            }
            Event::Compaction { level, inputs0, inputs1, smallest_snapshot, last_sequence, levels_before, input_entries, output_entries, stop_answers, closed_by_size, manual, .. } => {
                let emap: BTreeMap<u64, Vec<raindb::verif::Entry>> = input_entries.iter().cloned().collect();
                // an automatic compaction that merged its inputs: the model of is_trivial_move must say
                // "merge" (no manual request was pending when the results were installed, hence none when
                // the decision was taken)
                if !*manual {
                    let n = |v: &Vec<u64>| if v.is_empty() { "_".to_string() } else { v.iter().map(|n| n.to_string()).collect::<Vec<_>>().join(",") };
                    let sizes: Vec<String> = levels_before.get(*level + 2).map_or(vec![], |l| l.iter().map(|f| format!("{}={}", f.number, f.size)).collect());
                    let d = drv.ask(&format!("cut.trivial {} {} {} {} {} {}", levels_tok(levels_before, &BTreeMap::new()), level, n(inputs0), n(inputs1), if sizes.is_empty() { "_".to_string() } else { sizes.join(",") }, MAX_FILE_SIZE.with(|m| m.get())));
                    if d != "no-model" {
                        stats.move_decisions_checked += 1;
                        if d != "false" {
                            obs.push(Obs { sig: "c07:trivial-move-decision-outside-the-verified-model".into(), what: format!("an automatic compaction of level {level} merged its inputs {:?} + {:?} on {:?}; the model of is_trivial_move answers {d}: the file should have been moved", inputs0, inputs1, brief(levels_before)), at });
                        }
                    }
                }
                // the output loop of Rain/OutputLoop.lean replayed on this compaction: with the recorded answers
                // of should_stop_before_key and the outputs the size rule closed as the two cut rules,
                // the model must ask the grandparent rule exactly as often as the code did (only while
                // an output is open) and write exactly these outputs
                {
                    let n = |v: &Vec<u64>| if v.is_empty() { "_".to_string() } else { v.iter().map(|n| n.to_string()).collect::<Vec<_>>().join(",") };
                    let outs = if output_entries.is_empty() { "_".to_string() } else { output_entries.iter().map(|(n, es)| format!("{}:{}", n, ents_tok(es))).collect::<Vec<_>>().join(";") };
                    let answers: String = if stop_answers.is_empty() { "_".to_string() } else { stop_answers.iter().map(|b| if *b { '1' } else { '0' }).collect() };
                    let a = drv.ask(&format!("cut.run {} {} {} {} {} {} {} {}", levels_tok(levels_before, &emap), level, n(inputs0), n(inputs1), smallest_snapshot, outs, answers, n(closed_by_size)));
                    if a != "no-model" {
                        stats.output_loops_checked += 1;
                        stats.grandparent_rule_calls += stop_answers.len() as u64;
                        stats.grandparent_rule_stops += stop_answers.iter().filter(|b| **b).count() as u64;
                        stats.outputs_closed_by_size += closed_by_size.len() as u64;
                        // the same loop with the MODEL of should_stop_before_key (Rain/Grandparent.lean) as the
                        // grandparent rule: it must give the recorded answers
                        let sizes: Vec<String> = levels_before.get(*level + 2).map_or(vec![], |l| l.iter().map(|f| format!("{}={}", f.number, f.size)).collect());
                        let g = drv.ask(&format!("cut.gp {} {} {} {} {} {} {} {} {} {}", levels_tok(levels_before, &emap), level, n(inputs0), n(inputs1), smallest_snapshot, outs, answers, n(closed_by_size), if sizes.is_empty() { "_".to_string() } else { sizes.join(",") }, MAX_FILE_SIZE.with(|m| m.get())));
                        if g != "no-model" {
                            stats.grandparent_rules_checked += 1;
                            if g != "ok" {
                                obs.push(Obs { sig: "c07:grandparent-rule-outside-the-verified-model".into(), what: format!("compaction of level {level} (inputs {:?} + {:?}, max_file_size {}): should_stop_before_key answered [{answers}] over its {} calls; the model of the rule on the model's overlapping grandparents does not: {g}", inputs0, inputs1, MAX_FILE_SIZE.with(|m| m.get()), stop_answers.len()), at });
                            }
                        }
                        if a != "ok" {
                            obs.push(Obs { sig: "c07:compaction-output-loop-outside-the-verified-model".into(), what: format!("compaction of level {level} (inputs {:?} + {:?}, smallest snapshot {smallest_snapshot}): the output loop of the model, run with the recorded answers of should_stop_before_key ({} calls) and the outputs the size rule closed ({:?}), does not reproduce what the code did (outputs with {:?} entries): {a}", inputs0, inputs1, stop_answers.len(), closed_by_size, output_entries.iter().map(|o| o.1.len()).collect::<Vec<_>>()), at });
                        }
                    }
                }
                let nums = |v: &Vec<u64>| if v.is_empty() { "_".to_string() } else { v.iter().map(|n| n.to_string()).collect::<Vec<_>>().join(",") };
                let outs = if output_entries.is_empty() {
                    "_".to_string()
                } else {
                    output_entries.iter().map(|(n, es)| format!("{}:{}", n, ents_tok(es))).collect::<Vec<_>>().join(";")
                };
                let kept: usize = output_entries.iter().map(|o| o.1.len()).sum();
                let total: usize = input_entries.iter().map(|o| o.1.len()).sum();
                stats.entries_dropped += (total - kept.min(total)) as u64;
                // the potential of Rain/Potential.lean (sum of (6 - level) per stored entry) must drop
                // with every table compaction (C09_compaction_decreases_potential): a direct check of
                // that consequence on the real transition
                {
                    let upper: usize = input_entries.iter().filter(|(n, _)| inputs0.contains(n)).map(|o| o.1.len()).sum();
                    let lower: usize = total - upper.min(total);
                    let w = |l: usize| 6usize.saturating_sub(l);
                    let before = w(*level) * upper + w(*level + 1) * lower;
                    let after = w(*level + 1) * kept;
                    if after >= before {
                        obs.push(Obs { sig: "c09:table-compaction-does-not-lower-the-potential".into(), what: format!("compaction of level {level}: {upper} entries from level {level}, {lower} from level {}, {kept} written: the entry-weighted depth goes from {before} to {after}; table compactions could go on forever", level + 1), at });
                    }
                    stats.potential_drop += (before - after.min(before)) as u64;
                }
                request = format!(
                    "lsm.compact {} {} {} {} {} {} {}",
                    last_sequence,
                    levels_tok(levels_before, &emap),
                    level,
                    nums(inputs0),
                    nums(inputs1),
                    smallest_snapshot,
                    outs
                );
                let a = drv.ask(&request);
                (levels_before, a, "compaction")
            }
            _ => continue,
        };
        if answer == "no-model" {
            return;
        }
        if std::env::var("VERIF_TRACE").is_ok() {
            eprintln!("event {kind} before={:?} -> {answer}", brief(levels_before));
        }
        stats.events_validated += 1;
        if let Some(prev) = chain.as_ref() {
            if prev != &brief(levels_before) {
                obs.push(Obs { sig: "c10:version-changed-between-recorded-transitions".into(), what: format!("the files of the version before this {kind} ({:?}) are not what the previous transition left ({:?})", brief(levels_before), prev), at });
            }
        }
        if let Some(rest) = answer.strip_prefix("ok ") {
            *chain = Some(parse_brief(rest));
        } else {
            *chain = None;
            let sig = match kind {
                "flush" => "c07:flush-outside-the-verified-transition-relation",
                "trivial-move" => "c07:trivial-move-outside-the-verified-transition-relation",
                _ => "c07:compaction-outside-the-verified-transition-relation",
            };
            let detail = match ev {
                Event::Compaction { level, inputs0, inputs1, smallest_snapshot, outputs, .. } => format!("level {level} inputs {:?} + {:?} smallest snapshot {smallest_snapshot} outputs {:?} on {:?}", inputs0, inputs1, outputs, brief(levels_before)),
                Event::Flush { file, level, .. } => format!("table {file} to level {level} on {:?}", brief(levels_before)),
                Event::TrivialMove { file, level, .. } => format!("table {file} from level {level} on {:?}", brief(levels_before)),
                _ => String::new(),
            };
            // the transition depends on the background thread's timing: keep the exact request so the
            // model side can be re-evaluated (`raindrv < file`) even if the history does not replay
            let saved = save_request(&request);
            obs.push(Obs { sig: sig.into(), what: format!("the {kind} the database performed ({detail}) does not satisfy the model's validity predicate, under which alone contents and invariant are proved to be preserved: {answer} [model request saved as {saved}]"), at });
        }
    }
}

/// Check a quiescent state dump against the model: the executable invariant, and the model's read
/// path on the dumped state against the real gets.
pub fn validate_state(drv: &mut crate::drv::Drv, db: &DB, st: &StateDump, probes: &[(Vec<u8>, u64, Option<Vec<u8>>)], obs: &mut Vec<Obs>, stats: &mut Stats, drift: &mut Vec<String>, at: usize) {
    let mut entries: BTreeMap<u64, Vec<raindb::verif::Entry>> = BTreeMap::new();
    for l in &st.levels {
        for f in l {
            match db.verif_table_entries(f.number) {
                Ok(es) => {
                    entries.insert(f.number, es);
                }
                Err(_) => return,
            }
        }
    }
    let head = format!("{} {} {} {}", st.last_sequence, ents_tok(&st.mem), st.imm.as_ref().map_or("-".to_string(), |i| ents_tok(i)), levels_tok(&st.levels, &entries));
    let a = drv.ask(&format!("lsm.inv {head}"));
    if a == "no-model" {
        return;
    }
    stats.states_validated += 1;
    if a != "true" {
        obs.push(Obs { sig: "c10:model-invariant-violated".into(), what: format!("the dumped state (levels {:?}) does not satisfy the invariant the read-path theorem needs (answer: {a})", brief(&st.levels)), at });
        return;
    }
    // the relation between the instance and its disk image that the composition theorems
    // (Rain/Props/Persist.lean) maintain, evaluated on this real state: the image is rebuilt from the
    // recorded filesystem operations (only at quiescent points: no immutable memtable)
    // (the image is rebuilt from the whole operation log every time: at most three states per history)
    if st.imm.is_none() && std::env::var("VERIF_NO_PERSIST").is_err() && PERSIST_BUDGET.with(|b| { let v = b.get(); if v > 0 { b.set(v - 1); true } else { false } }) {
        let stream = TABLE_SIZES.with(|f| f.borrow().as_ref().and_then(|fs| crate::crash::model_stream(fs)));
        if let Some(stream) = stream {
            let ops = stream.iter().map(|x| x.0.as_str()).collect::<Vec<_>>().join(" ");
            let a = drv.ask(&format!("persist.rel {head} {} {} - {ops}", st.manifest_number, st.wal_number));
            if a != "no-model" && a != "bad-request" {
                stats.persist_relation_checked += 1;
                if a.contains("tight=true") {
                    stats.persist_directory_exact += 1;
                }
                if !a.starts_with("rel=true") {
                    drift.push(format!("persisted-state relation: the disk image rebuilt from the recorded filesystem operations and the dumped instance state (levels {:?}, manifest {}, wal {}) are not in the relation Rel of Rain/Lemmas/Persist.lean: {}", brief(&st.levels), st.manifest_number, st.wal_number, a.chars().take(400).collect::<String>()));
                }
            }
        }
    }
    if probes.is_empty() {
        return;
    }
    let q = probes.iter().map(|(k, s, _)| format!("{}/{}", hex(k), s)).collect::<Vec<_>>().join(",");
    let a = drv.ask(&format!("lsm.gets {head} {q}"));
    let answers: Vec<&str> = a.split(' ').collect();
    if answers.len() != probes.len() {
        drift.push(format!("lsm.gets answered {} values for {} probes", answers.len(), probes.len()));
        return;
    }
    for ((k, s, got), ans) in probes.iter().zip(answers.iter()) {
        let g = got.as_ref().map_or("none".to_string(), |v| format!("v:{}", hex(v)));
        if &g != ans {
            drift.push(format!("model read path on the dumped state gives {ans} for get({}, {s}), the database returned {g}", hex(k)));
        }
    }
}

pub fn scan_db(db: &DB, snap: Option<Snapshot>) -> Result<Vec<(Vec<u8>, Vec<u8>)>, String> {
    let ro = ReadOptions { fill_cache: true, snapshot: snap };
    let mut it = db.new_iterator(ro).map_err(|e| format!("new_iterator: {e}"))?;
    it.seek_to_first().map_err(|e| format!("seek_to_first: {e}"))?;
    let mut out = vec![];
    let mut guard = 0u64;
    while it.is_valid() {
        let (k, v) = it.current().unwrap();
        out.push((k.clone(), v.clone()));
        it.next();
        guard += 1;
        if guard > 5_000_000 {
            return Err("scan does not terminate".into());
        }
    }
    Ok(out)
}

fn describe_diff(got: &[(Vec<u8>, Vec<u8>)], want: &Oracle) -> Option<String> {
    let w: Vec<(&Vec<u8>, &Vec<u8>)> = want.iter().collect();
    for i in 0..got.len().max(w.len()) {
        match (got.get(i), w.get(i)) {
            (Some((gk, gv)), Some((wk, wv))) => {
                if gk != *wk {
                    return Some(format!("position {i}: got key {} expected key {}", hex(gk), hex(wk)));
                }
                if gv != *wv {
                    return Some(format!("position {i} key {}: got value of {} bytes, expected {} bytes", hex(gk), gv.len(), wv.len()));
                }
            }
            (Some((gk, _)), None) => return Some(format!("position {i}: unexpected extra key {}", hex(gk))),
            (None, Some((wk, _))) => return Some(format!("position {i}: missing key {}", hex(wk))),
            (None, None) => {}
        }
    }
    None
}

/// C10: well-formedness of the reported shape, cross-checked against the table files themselves
pub fn check_shape(db: &DB, st: &StateDump, obs: &mut Vec<Obs>, at: usize) {
    let mut seen = std::collections::BTreeSet::new();
    for (lvl, files) in st.levels.iter().enumerate() {
        for f in files {
            if !seen.insert(f.number) {
                obs.push(Obs { sig: "c10:duplicate-file-number".into(), what: format!("file {} appears twice in the version", f.number), at });
            }
            let lo = (&f.smallest.0, std::cmp::Reverse(f.smallest.1));
            let hi = (&f.largest.0, std::cmp::Reverse(f.largest.1));
            if lo > hi {
                obs.push(Obs {
                    sig: "c10:smallest-greater-than-largest".into(),
                    what: format!("level {lvl} file {}: smallest {}@{} > largest {}@{}", f.number, hex(&f.smallest.0), f.smallest.1, hex(&f.largest.0), f.largest.1),
                    at,
                });
            }
            match db.verif_table_entries(f.number) {
                Err(e) => obs.push(Obs { sig: "c10:table-unreadable".into(), what: format!("level {lvl} file {}: {e}", f.number), at }),
                Ok(es) => {
                    if es.is_empty() {
                        obs.push(Obs { sig: "c10:empty-table".into(), what: format!("level {lvl} file {} has no entries", f.number), at });
                    } else {
                        let first = &es[0];
                        let last = &es[es.len() - 1];
                        if (&first.0, first.1) != (&f.smallest.0, f.smallest.1) || (&last.0, last.1) != (&f.largest.0, f.largest.1) {
                            obs.push(Obs {
                                sig: "c10:bounds-do-not-match-contents".into(),
                                what: format!(
                                    "level {lvl} file {}: recorded [{}@{} .. {}@{}] but stored entries span [{}@{} .. {}@{}]",
                                    f.number,
                                    hex(&f.smallest.0),
                                    f.smallest.1,
                                    hex(&f.largest.0),
                                    f.largest.1,
                                    hex(&first.0),
                                    first.1,
                                    hex(&last.0),
                                    last.1
                                ),
                                at,
                            });
                        }
                        for w in es.windows(2) {
                            let a = (&w[0].0, std::cmp::Reverse(w[0].1));
                            let b = (&w[1].0, std::cmp::Reverse(w[1].1));
                            if a >= b {
                                obs.push(Obs { sig: "c10:table-not-sorted".into(), what: format!("level {lvl} file {} entries out of order", f.number), at });
                                break;
                            }
                        }
                    }
                }
            }
        }
        if lvl >= 1 {
            for w in files.windows(2) {
                // ordered and disjoint on user keys (and hence on internal keys)
                let a_hi = (&w[0].largest.0, std::cmp::Reverse(w[0].largest.1));
                let b_lo = (&w[1].smallest.0, std::cmp::Reverse(w[1].smallest.1));
                if a_hi >= b_lo {
                    obs.push(Obs {
                        sig: "c10:level-files-overlap-or-unordered".into(),
                        what: format!(
                            "level {lvl}: file {} (largest {}@{}) and file {} (smallest {}@{}) overlap or are out of order",
                            w[0].number,
                            hex(&w[0].largest.0),
                            w[0].largest.1,
                            w[1].number,
                            hex(&w[1].smallest.0),
                            w[1].smallest.1
                        ),
                        at,
                    });
                }
            }
        }
    }
    // descriptors agree with the dump
    for (lvl, files) in st.levels.iter().enumerate() {
        match db.get_descriptor(DatabaseDescriptor::NumFilesAtLevel(lvl)) {
            Ok(s) => {
                if s != files.len().to_string() {
                    obs.push(Obs { sig: "c10:numfiles-descriptor-mismatch".into(), what: format!("NumFilesAtLevel({lvl}) = {s}, version has {}", files.len()), at });
                }
            }
            Err(e) => obs.push(Obs { sig: "c10:descriptor-error".into(), what: format!("NumFilesAtLevel({lvl}) failed: {e}"), at }),
        }
    }
    match db.get_descriptor(DatabaseDescriptor::SSTables) {
        Ok(s) => {
            // the SSTables text against the version: per level the same files in the same order with the
            // same sizes; for keys made of plain characters also the same bounds (user key and sequence
            // number; other keys are printed lossily and cannot be read back)
            let simple = |k: &[u8]| !k.is_empty() && k.iter().all(|b| b.is_ascii_alphanumeric() || *b == b'/' || *b == b'-' || *b == b'_');
            let mut reported: Vec<Vec<String>> = vec![];
            for line in s.lines() {
                if line.starts_with("--- Level ") {
                    reported.push(vec![]);
                } else if !line.trim().is_empty() {
                    match reported.last_mut() {
                        Some(l) => l.push(line.to_string()),
                        None => reported.push(vec![line.to_string()]),
                    }
                }
            }
            let mut problem: Option<String> = None;
            if reported.len() != st.levels.len() {
                problem = Some(format!("{} levels reported, the version has {}", reported.len(), st.levels.len()));
            }
            'outer: for (lvl, files) in st.levels.iter().enumerate() {
                let lines = reported.get(lvl).cloned().unwrap_or_default();
                if lines.len() != files.len() {
                    problem = Some(format!("level {lvl}: {} files reported, the version has {}", lines.len(), files.len()));
                    break;
                }
                for (f, line) in files.iter().zip(lines.iter()) {
                    let head = format!("{} (size: {})[", f.number, f.size);
                    if !line.starts_with(&head) || !line.ends_with(']') {
                        problem = Some(format!("level {lvl}: expected an entry starting with '{head}', found '{}'", line.chars().take(120).collect::<String>()));
                        break 'outer;
                    }
                    if simple(&f.smallest.0) && simple(&f.largest.0) {
                        let body = &line[head.len()..line.len() - 1];
                        let want_lo = format!("{} @ {} : ", String::from_utf8_lossy(&f.smallest.0), f.smallest.1);
                        let want_hi = format!("{} @ {} : ", String::from_utf8_lossy(&f.largest.0), f.largest.1);
                        let ok = body.starts_with(&want_lo) && body.contains(&format!("..{want_hi}"));
                        if !ok {
                            problem = Some(format!("level {lvl} file {}: the version's bounds are [{}@{} .. {}@{}], the descriptor shows '{}'", f.number, String::from_utf8_lossy(&f.smallest.0), f.smallest.1, String::from_utf8_lossy(&f.largest.0), f.largest.1, body.chars().take(260).collect::<String>()));
                            break 'outer;
                        }
                    }
                }
            }
            if let Some(pr) = problem {
                obs.push(Obs { sig: "c10:sstables-descriptor-differs-from-version".into(), what: format!("the SSTables descriptor does not describe the current version: {pr}"), at });
            }
        }
        Err(e) => obs.push(Obs { sig: "c10:descriptor-error".into(), what: format!("SSTables failed: {e}"), at }),
    }
}

/// C11: directory contents at a quiescent moment with no snapshots/iterators alive
pub fn check_files(fs: &SimFs, st: &StateDump, no_readers: bool, obs: &mut Vec<Obs>, at: usize) {
    let mut live_tables = std::collections::BTreeSet::new();
    for files in st.levels.iter() {
        for f in files {
            live_tables.insert(f.number);
        }
    }
    let all = fs.all_files();
    let mut tables_on_disk = std::collections::BTreeSet::new();
    for (p, _) in &all {
        let s = p.to_string_lossy().to_string();
        let name = p.file_name().map(|n| n.to_string_lossy().to_string()).unwrap_or_default();
        if s.starts_with("/db/data/") {
            if let Some(n) = name.strip_suffix(".rdb").and_then(|n| n.parse::<u64>().ok()) {
                tables_on_disk.insert(n);
            }
        } else if s.starts_with("/db/wal/") {
            if let Some(n) = name.strip_prefix("wal-").and_then(|n| n.strip_suffix(".log")).and_then(|n| n.parse::<u64>().ok()) {
                let needed = n >= st.wal_number || Some(n) == st.prev_wal_number;
                if !needed && no_readers {
                    obs.push(Obs { sig: "c11:obsolete-wal-kept".into(), what: format!("WAL {n} is on disk but the current WAL is {}", st.wal_number), at });
                }
            }
        } else if name.ends_with(".manifest") {
            if let Some(n) = name.strip_prefix("MANIFEST-").and_then(|n| n.strip_suffix(".manifest")).and_then(|n| n.parse::<u64>().ok()) {
                if n < st.manifest_number && no_readers {
                    obs.push(Obs { sig: "c11:obsolete-manifest-kept".into(), what: format!("manifest {n} is on disk but the current manifest is {}", st.manifest_number), at });
                }
                if n > st.manifest_number && no_readers {
                    // left behind by a crash in the middle of a manifest switch; the deletion pass keeps
                    // every manifest with a number above the current one
                    obs.push(Obs { sig: "c11:orphan-manifest-with-larger-number-kept".into(), what: format!("manifest {n} is on disk but the current manifest is {} (remove_obsolete_files keeps manifests numbered above the current one)", st.manifest_number), at });
                }
            }
        } else if matches!(crate::fnames::own_name(&name), Some(("temp", _))) && no_readers {
            obs.push(Obs { sig: "c11:temp-file-kept".into(), what: format!("temp file {s} is on disk"), at });
        }
    }
    for n in &live_tables {
        if !tables_on_disk.contains(n) {
            obs.push(Obs { sig: "c11:live-table-missing".into(), what: format!("table {n} is in the current version but not on disk"), at });
        }
    }
    if no_readers {
        for n in &tables_on_disk {
            if !live_tables.contains(n) {
                obs.push(Obs {
                    sig: "c11:obsolete-table-kept".into(),
                    what: format!(
                        "table {n} is on disk but not in the current version (linked versions: {}, refcounts {:?})",
                        st.versions.len(),
                        st.version_refcounts
                    ),
                    at,
                });
            }
        }
    }
    if !all.iter().any(|(p, _)| p.to_string_lossy() == "/db/CURRENT") {
        obs.push(Obs { sig: "c11:current-missing".into(), what: "CURRENT is missing".into(), at });
    }
    let man = format!("/db/MANIFEST-{}.manifest", st.manifest_number);
    if !all.iter().any(|(p, _)| p.to_string_lossy() == man) {
        obs.push(Obs { sig: "c11:manifest-missing".into(), what: format!("{man} is missing"), at });
    }
}

/// Obsolete tables found at a quiescent moment although no old version is linked any more:
/// the database only deletes files at the end of a flush/compaction, so a table whose last
/// reference was a reader's (iterator / get in flight during the compaction that replaced it)
/// stays until the *next* deletion pass. Force one (an empty memtable flush) and look again:
/// what is gone then is reported under its own signature, what is still there is a leak.
fn classify_lingering(d: &DB, fs: &SimFs, st: &StateDump, no_readers: bool, fobs: &mut Vec<Obs>, stats: &mut Stats, at: usize) {
    let kept = |o: &Obs| o.sig == "c11:obsolete-table-kept" || o.sig == "c11:obsolete-wal-kept" || o.sig == "c11:obsolete-manifest-kept";
    if !no_readers || st.versions.len() != 1 || !fobs.iter().any(|o| kept(o)) {
        return;
    }
    d.compact_range(Some(&b""[..])..Some(&b""[..]));
    if !d.verif_wait_idle(Duration::from_secs(20)) {
        return;
    }
    // the transitions of this pass stay in the event log and are validated by the next settle
    let st2 = d.verif_state();
    let mut again = vec![];
    check_files(fs, &st2, true, &mut again, at);
    let still: std::collections::BTreeSet<String> = again.iter().filter(|o| kept(o)).map(|o| o.what.split(" is on disk").next().unwrap_or("").to_string()).collect();
    for o in fobs.iter_mut() {
        if kept(o) {
            let name = o.what.split(" is on disk").next().unwrap_or("").to_string();
            if !still.contains(&name) {
                o.sig = "c11:obsolete-file-lingers-until-next-deletion-pass".into();
                o.what = format!("{} — it was deleted only by the next flush (a reader pinned the replaced version while the compaction that obsoleted the file finished, and releasing the reader does not trigger deletion)", o.what);
                stats.lingering += 1;
            }
        }
    }
}

/// Run a history against the real database on a fresh SimFs. Never panics: panics of the
/// implementation are caught and reported.
pub fn run_history(h: &History, checks: &Checks, fs: &SimFs) -> RunOut {
    let mut obs: Vec<Obs> = vec![];
    let mut stats = Stats::default();
    let mut oracle: Oracle = BTreeMap::new();
    let mut snaps: BTreeMap<u32, (Snapshot, Oracle)> = BTreeMap::new();
    let mut snap_seqs: BTreeMap<u32, u64> = BTreeMap::new();
    let mut foreign = false;
    LIVE_SNAPS.with(|l| *l.borrow_mut() = Default::default());
    let mut iters: BTreeMap<u32, (Box<dyn RainDbIterator<Key = Vec<u8>, Error = raindb::RainDBError>>, Oracle)> = BTreeMap::new();
    let mut cfg = h.cfg.clone();
    let mut completed = 0usize;
    let _ = raindb::verif::events_take(DB_PATH);
    raindb::verif::set_level_one_max_bytes(0);
    reset_shared_options();
    PERSIST_BUDGET.with(|b| b.set(3));
    raindb::verif::set_seek_events(checks.drv_path.is_some());
    raindb::verif::set_room_events(checks.drv_path.is_some());
    ROOM_CALLS.with(|p| p.borrow_mut().clear());
    SEEK.with(|t| t.borrow_mut().reset_all());
    TABLE_SIZES.with(|f| *f.borrow_mut() = Some(fs.clone()));
    sched_reset();
    MAX_FILE_SIZE.with(|m| m.set(cfg.file));
    let mut db: Option<DB> = match DB::open(cfg.options(fs)) {
        Ok(d) => Some(d),
        Err(e) => {
            obs.push(Obs { sig: "c01:open-failed".into(), what: format!("DB::open on an empty filesystem failed: {e}"), at: 0 });
            return RunOut { drift: vec![], obs, stats, completed_ops: 0 };
        }
    };
    let wo = || WriteOptions::default();

    fn settle(db: &DB, stats: &mut Stats, obs: &mut Vec<Obs>, at: usize, drv: &mut Option<crate::drv::Drv>, chain: &mut Option<Vec<Vec<u64>>>) -> Option<StateDump> {
        if !db.verif_wait_idle(Duration::from_secs(20)) {
            obs.push(Obs { sig: "c09:background-work-never-finishes".into(), what: "background work still pending after 20 s".into(), at });
            return None;
        }
        let st = db.verif_state();
        if let Some(b) = &st.bad_state {
            obs.push(Obs { sig: "c09:bad-database-state".into(), what: format!("the database recorded a background error without any injected fault: {b}"), at });
        }
        // the invariant of the snapshot list (Rain/Props/Snap.lean SInv) on the dumped list: ordered by
        // sequence number (new_snapshot asserts it), nothing above the last published sequence number
        if st.snapshots.windows(2).any(|w| w[0] > w[1]) || st.snapshots.iter().any(|q| *q > st.last_sequence) {
            obs.push(Obs { sig: "c03:snapshot-list-invariant-violated".into(), what: format!("the snapshot list {:?} (oldest first) is not ordered by sequence number or holds a snapshot above the last published sequence number {}: a compaction takes the HEAD of the list as the smallest snapshot", st.snapshots, st.last_sequence), at });
        }
        stats.snapshot_lists_checked += 1;
        let events = raindb::verif::events_take(DB_PATH);
        if let Some(dr) = drv.as_mut() {
            validate_events(dr, &events, obs, stats, at, chain);
            validate_obsolete(dr, &events, obs, stats, at);
            validate_room(dr, &events, obs, stats, at);
            // a snapshot the client held at the previous quiescent point and still holds now was alive
            // during every compaction in between: none of them may have used a larger "smallest
            // snapshot" (the model's view-preservation theorem only protects views at or above it)
            LIVE_SNAPS.with(|l| {
                let mut l = l.borrow_mut();
                for ev in &events {
                    if let Event::Compaction { smallest_snapshot, level, .. } = ev {
                        if let Some(s) = l.0.intersection(&l.1).find(|s| **s < *smallest_snapshot) {
                            obs.push(Obs { sig: "c03:compaction-ignores-a-live-snapshot".into(), what: format!("a compaction of level {level} computed its smallest snapshot as {smallest_snapshot} although the client held a snapshot at sequence number {s} before it started and still holds it: versions only that snapshot can see may be dropped"), at });
                        }
                    }
                }
                l.1 = l.0.clone();
            });
            // the scheduling steps of the background worker against the protocol model's invariant
            SCHED.with(|t| {
                let mut t = t.borrow_mut();
                if let Some((sig, what)) = t.feed(&events, dr) {
                    obs.push(Obs { sig, what, at });
                }
                stats.sched_steps_checked = t.checked;
            });
            // seek charges, seek budgets and the recorded seek compaction against the model
            SEEK.with(|t| {
                let mut t = t.borrow_mut();
                let size_of = |n: u64| -> Option<u64> {
                    TABLE_SIZES.with(|f| f.borrow().as_ref().and_then(|fs| fs.read_file(std::path::Path::new(&format!("{DB_PATH}/data/{n}.rdb"))).map(|b| b.len() as u64)))
                };
                t.feed(&events, dr, &size_of);
                t.learn(db, &st, dr);
                t.check_state(&st, dr);
            });
        }
        for ev in events {
            match ev {
                Event::Flush { .. } => stats.flushes += 1,
                Event::TrivialMove { .. } => stats.trivial_moves += 1,
                Event::Compaction { manual, .. } => {
                    stats.compactions += 1;
                    if manual {
                        stats.manual_compactions += 1;
                    }
                    if !st.snapshots.is_empty() {
                        stats.snapshots_alive_at_compaction += 1;
                    }
                }
                Event::Delete { .. } => stats.deletes_of_files += 1,
                _ => {}
            }
        }
        stats.max_l0 = stats.max_l0.max(st.levels[0].len());
        for (l, f) in st.levels.iter().enumerate() {
            if !f.is_empty() {
                stats.deepest_level = stats.deepest_level.max(l);
                if l >= 1 {
                    stats.max_files_in_level = stats.max_files_in_level.max(f.len());
                }
            }
        }
        Some(st)
    }
    let mut drv: Option<crate::drv::Drv> = checks.drv_path.as_ref().map(|p| crate::drv::Drv::spawn(p));
    let mut chain: Option<Vec<Vec<u64>>> = None;
    let mut drift: Vec<String> = vec![];

    for (i, op) in h.ops.iter().enumerate() {
        let d = match db.as_ref() {
            Some(d) => d,
            None => break,
        };
        match op {
            Op::Put(k, v) => match d.put(wo(), k.clone(), v.clone()) {
                Ok(()) => {
                    oracle.insert(k.clone(), v.clone());
                }
                Err(e) => obs.push(Obs { sig: "c01:write-failed".into(), what: format!("put failed without an injected fault: {e}"), at: i }),
            },
            Op::Del(k) => match d.delete(wo(), k.clone()) {
                Ok(()) => {
                    oracle.remove(k);
                }
                Err(e) => obs.push(Obs { sig: "c01:write-failed".into(), what: format!("delete failed without an injected fault: {e}"), at: i }),
            },
            Op::Batch(es) => {
                let mut b = Batch::new();
                for (k, v) in es {
                    match v {
                        Some(v) => {
                            b.add_put(k.clone(), v.clone());
                        }
                        None => {
                            b.add_delete(k.clone());
                        }
                    }
                }
                match d.apply(wo(), b) {
                    Ok(()) => {
                        for (k, v) in es {
                            match v {
                                Some(v) => {
                                    oracle.insert(k.clone(), v.clone());
                                }
                                None => {
                                    oracle.remove(k);
                                }
                            }
                        }
                    }
                    Err(e) => obs.push(Obs { sig: "c01:write-failed".into(), what: format!("apply failed without an injected fault: {e}"), at: i }),
                }
            }
            Op::GetN(k, n) => {
                for _ in 0..*n {
                    stats.gets += 1;
                    let got = d.get(ReadOptions::default(), k);
                    let before = obs.len();
                    check_get(&got, oracle.get(k), k, "c01:get-mismatch", "latest state", i, &mut obs);
                    if obs.len() > before {
                        break;
                    }
                }
            }
            Op::LevelLimit(n) => raindb::verif::set_level_one_max_bytes(*n),
            Op::ListOrder(n) => fs.set_list_order(*n),
            Op::Foreign => {
                use raindb::fs::FileSystem;
                let _ = fs.create_dir_all(std::path::Path::new("/db/ARCHIVE"));
                fs.write_file_raw(std::path::Path::new("/db/ARCHIVE/old.txt"), b"keep me".to_vec());
                fs.write_file_raw(std::path::Path::new("/db/0notes.txt"), b"keep me too".to_vec());
                fs.write_file_raw(std::path::Path::new("/db/data/README"), b"not a table".to_vec());
                // names next to the database's own: none of them parses to a file number, so the
                // deletion pass must leave them alone (Rain/Props/FileNames.lean C11_foreign_names_survive)
                for p in FOREIGN_LOOKALIKES {
                    fs.write_file_raw(std::path::Path::new(p), b"foreign".to_vec());
                }
                foreign = true;
            }
            Op::SeekN(k, n) => {
                let want = oracle.range(k.clone()..).next().map(|(a, b)| (a.clone(), b.clone()));
                for _ in 0..*n {
                    stats.scans += 1;
                    let got: Result<Option<(Vec<u8>, Vec<u8>)>, String> = (|| {
                        let mut it = d.new_iterator(ReadOptions::default()).map_err(|e| format!("new_iterator: {e}"))?;
                        it.seek(k).map_err(|e| format!("seek: {e}"))?;
                        Ok(if it.is_valid() { it.current().map(|(a, b)| (a.clone(), b.clone())) } else { None })
                    })();
                    match got {
                        Err(e) => {
                            obs.push(Obs { sig: "c01:scan-error".into(), what: e, at: i });
                            break;
                        }
                        Ok(g) if g != want => {
                            obs.push(Obs { sig: "c01:seek-mismatch".into(), what: format!("a fresh iterator seeking {} stands on {:?}, expected {:?}", hex(k), g.as_ref().map(|x| hex(&x.0)), want.as_ref().map(|x| hex(&x.0))), at: i });
                            break;
                        }
                        Ok(_) => {}
                    }
                }
            }
            Op::Fill(start, n, l) => {
                for j in 0..*n {
                    let k = fill_key(start + j);
                    let v = vec![b'f'; *l as usize];
                    match d.put(wo(), k.clone(), v.clone()) {
                        Ok(()) => {
                            oracle.insert(k, v);
                        }
                        Err(e) => {
                            obs.push(Obs { sig: "c01:write-failed".into(), what: format!("put failed without an injected fault: {e}"), at: i });
                            break;
                        }
                    }
                }
            }
            Op::Get(k) => {
                stats.gets += 1;
                let got = d.get(ReadOptions::default(), k);
                check_get(&got, oracle.get(k), k, "c01:get-mismatch", "latest state", i, &mut obs);
            }
            Op::GetAt(id, k) => {
                if let Some((s, frozen)) = snaps.get(id) {
                    stats.gets += 1;
                    let got = d.get(ReadOptions { fill_cache: true, snapshot: Some(s.clone()) }, k);
                    check_get(&got, frozen.get(k), k, "c03:snapshot-get-mismatch", &format!("snapshot {id}"), i, &mut obs);
                }
            }
            Op::Scan => {
                stats.scans += 1;
                match scan_db(d, None) {
                    Err(e) => obs.push(Obs { sig: "c01:scan-error".into(), what: e, at: i }),
                    Ok(got) => {
                        if let Some(diff) = describe_diff(&got, &oracle) {
                            obs.push(Obs { sig: "c01:scan-mismatch".into(), what: format!("full scan at the latest state: {diff}"), at: i });
                        }
                    }
                }
            }
            Op::ScanAt(id) => {
                if let Some((s, frozen)) = snaps.get(id) {
                    stats.scans += 1;
                    match scan_db(d, Some(s.clone())) {
                        Err(e) => obs.push(Obs { sig: "c03:scan-error".into(), what: e, at: i }),
                        Ok(got) => {
                            if let Some(diff) = describe_diff(&got, frozen) {
                                obs.push(Obs { sig: "c03:snapshot-scan-mismatch".into(), what: format!("scan at snapshot {id}: {diff}"), at: i });
                            }
                        }
                    }
                }
            }
            Op::IterOpen(id) => {
                if !iters.contains_key(id) {
                    match d.new_iterator(ReadOptions::default()) {
                        Ok(it) => {
                            iters.insert(*id, (Box::new(it), oracle.clone()));
                        }
                        Err(e) => obs.push(Obs { sig: "c03:iterator-error".into(), what: format!("new_iterator failed: {e}"), at: i }),
                    }
                }
            }
            Op::IterClose(id) => {
                if let Some((mut it, frozen)) = iters.remove(id) {
                    stats.scans += 1;
                    let mut got = vec![];
                    match it.seek_to_first() {
                        Err(e) => obs.push(Obs { sig: "c03:iterator-error".into(), what: format!("seek_to_first on a kept iterator failed: {e}"), at: i }),
                        Ok(()) => {
                            while it.is_valid() {
                                let (k, v) = it.current().unwrap();
                                got.push((k.clone(), v.clone()));
                                it.next();
                                if got.len() > 2_000_000 {
                                    break;
                                }
                            }
                            if let Some(diff) = describe_diff(&got, &frozen) {
                                obs.push(Obs { sig: "c03:iterator-sees-later-state".into(), what: format!("iterator {id} kept across later operations: {diff}"), at: i });
                            }
                        }
                    }
                    drop(it);
                }
            }
            Op::Snap(id) => {
                if !snaps.contains_key(id) {
                    // single client: the snapshot is taken at the last published sequence number
                    let seq = d.verif_state().last_sequence;
                    let s = d.get_snapshot();
                    snaps.insert(*id, (s, oracle.clone()));
                    snap_seqs.insert(*id, seq);
                    LIVE_SNAPS.with(|l| {
                        l.borrow_mut().0.insert(seq);
                    });
                }
            }
            Op::Release(id) => {
                if let Some((s, _)) = snaps.remove(id) {
                    d.release_snapshot(s);
                    if let Some(seq) = snap_seqs.remove(id) {
                        // another held snapshot may share the sequence number
                        if !snap_seqs.values().any(|v| *v == seq) {
                            LIVE_SNAPS.with(|l| {
                                l.borrow_mut().0.remove(&seq);
                            });
                        }
                    }
                }
            }
            Op::Compact(a, b) => {
                let before = if checks.dumps { Some(full_dump(d, &oracle, &snaps)) } else { None };
                let r: Range<Option<&[u8]>> = a.as_deref()..b.as_deref();
                d.compact_range(r);
                if let Some(st) = settle(d, &mut stats, &mut obs, i, &mut drv, &mut chain) {
                    if checks.shape {
                        check_shape(d, &st, &mut obs, i);
                    }
                }
                if let Some(before) = before {
                    let after = full_dump(d, &oracle, &snaps);
                    compare_dumps(&before, &after, "compact_range", i, &mut obs);
                }
            }
            Op::CompactBusy(a, b, k, writes) => {
                crate::sched::reset();
                let g = crate::sched::arm("bg", "bg:compact-loop", *k);
                let r: Range<Option<&[u8]>> = a.as_deref()..b.as_deref();
                let mut wrote = 0usize;
                std::thread::scope(|sc| {
                    let h = sc.spawn(|| d.compact_range(r));
                    let t0 = std::time::Instant::now();
                    while !g.wait_parked(std::time::Duration::from_millis(1)) && !h.is_finished() && t0.elapsed() < std::time::Duration::from_secs(5) {}
                    if g.wait_parked(std::time::Duration::from_millis(0)) {
                        stats.flushes_staged_inside_a_compaction += 1;
                        for (key, v) in writes {
                            // stop once the memtable has been rotated: the next rotation would wait for
                            // the parked thread
                            if d.verif_state().imm.is_some() {
                                break;
                            }
                            if d.put(wo(), key.clone(), v.clone()).is_ok() {
                                oracle.insert(key.clone(), v.clone());
                            }
                            wrote += 1;
                        }
                    }
                    g.release();
                    let _ = h.join();
                });
                crate::sched::reset();
                // whatever was not written while the thread was parked is written now
                for (key, v) in writes.iter().skip(wrote) {
                    if d.put(wo(), key.clone(), v.clone()).is_ok() {
                        oracle.insert(key.clone(), v.clone());
                    }
                }
                if let Some(st) = settle(d, &mut stats, &mut obs, i, &mut drv, &mut chain) {
                    if checks.shape {
                        check_shape(d, &st, &mut obs, i);
                    }
                }
            }
            Op::Idle => {
                if let Some(st) = settle(d, &mut stats, &mut obs, i, &mut drv, &mut chain) {
                    stats.idle_checks += 1;
                    if checks.shape {
                        check_shape(d, &st, &mut obs, i);
                    }
                    if checks.files {
                        let mut fobs = vec![];
                        check_files(fs, &st, snaps.is_empty() && iters.is_empty(), &mut fobs, i);
                        classify_lingering(d, fs, &st, snaps.is_empty() && iters.is_empty(), &mut fobs, &mut stats, i);
                        obs.extend(fobs);
                    }
                    if checks.dumps {
                        let after = full_dump(d, &oracle, &snaps);
                        for (name, r) in &after {
                            if let Err(e) = r {
                                obs.push(Obs { sig: "c07:contents-changed".into(), what: format!("after background work quiesced, {name}: {e}"), at: i });
                            }
                        }
                    }
                    if checks.retention_model && snaps.is_empty() && iters.is_empty() && drv.is_some() {
                        // force a deletion pass (an empty memtable flush), then the directory must be
                        // a fixed point of the model's deletion pass and contain every live file
                        d.compact_range(Some(&b""[..])..Some(&b""[..]));
                        if let Some(st3) = settle(d, &mut stats, &mut obs, i, &mut drv, &mut chain) {
                            let mut tabs: Vec<u64> = vec![];
                            let mut wals: Vec<u64> = vec![];
                            let mut mans: Vec<u64> = vec![];
                            let mut temps: Vec<u64> = vec![];
                            for (p, _) in fs.all_files() {
                                let name = p.file_name().map(|n| n.to_string_lossy().to_string()).unwrap_or_default();
                                if let Some(n) = name.strip_suffix(".rdb").and_then(|x| x.parse().ok()) {
                                    tabs.push(n);
                                } else if let Some(n) = name.strip_prefix("wal-").and_then(|x| x.strip_suffix(".log")).and_then(|x| x.parse().ok()) {
                                    wals.push(n);
                                } else if let Some(n) = name.strip_prefix("MANIFEST-").and_then(|x| x.strip_suffix(".manifest")).and_then(|x| x.parse().ok()) {
                                    mans.push(n);
                                } else if let Some(n) = name.strip_suffix(".dbtemp").and_then(|x| x.parse().ok()) {
                                    temps.push(n);
                                }
                            }
                            let fmt = |v: &Vec<u64>| if v.is_empty() { "_".to_string() } else { v.iter().map(|x| x.to_string()).collect::<Vec<_>>().join(",") };
                            let versions = st3
                                .versions
                                .iter()
                                .zip(st3.version_refcounts.iter())
                                .enumerate()
                                .map(|(vi, (lv, rc))| {
                                    let ts: Vec<u64> = lv.iter().flatten().copied().collect();
                                    // strong count minus the list's reference and, for the current version, the `current_version` field
                                    let ext = rc.saturating_sub(if vi + 1 == st3.versions.len() { 2 } else { 1 });
                                    format!("{}/{}", fmt(&ts), ext)
                                })
                                .collect::<Vec<_>>()
                                .join(";");
                            let req = format!(
                                "files.clean {} {} {} {} {} {} {} {} {}",
                                versions,
                                fmt(&st3.tables_in_use),
                                st3.wal_number,
                                st3.prev_wal_number.map_or("-".to_string(), |x| x.to_string()),
                                st3.manifest_number,
                                fmt(&tabs),
                                fmt(&wals),
                                fmt(&mans),
                                fmt(&temps)
                            );
                            if let Some(dr) = drv.as_mut() {
                                let ans = dr.ask(&req);
                                let have = format!("{} {} {} {}", fmt(&tabs), fmt(&wals), fmt(&mans), fmt(&temps));
                                stats.retention_checks += 1;
                                if ans != "no-model" && ans != have {
                                    obs.push(Obs { sig: "c11:directory-differs-from-retention-model".into(), what: format!("after a deletion pass with no reader alive the directory is [{have}], the retention model's deletion pass would leave [{ans}] (state: versions {versions}, wal {}, manifest {})", st3.wal_number, st3.manifest_number), at: i });
                                }
                            }
                        }
                    }
                    if drv.is_some() {
                        // probes: every oracle key at the latest state and at every live snapshot
                        let mut probes: Vec<(Vec<u8>, u64, Option<Vec<u8>>)> = vec![];
                        for k in oracle.keys().take(12) {
                            probes.push((k.clone(), st.last_sequence, d.get(ReadOptions::default(), k).ok()));
                        }
                        for (sn, (sh, frozen)) in snaps.iter().zip(st.snapshots.iter()).map(|((_, v), q)| (*q, v)) {
                            for k in frozen.keys().take(6) {
                                probes.push((k.clone(), sn, d.get(ReadOptions { fill_cache: true, snapshot: Some(sh.clone()) }, k).ok()));
                            }
                        }
                        // the reads above may have triggered a seek compaction: validate a fresh dump
                        if let Some(st2) = settle(d, &mut stats, &mut obs, i, &mut drv, &mut chain) {
                            if st2.levels == st.levels && st2.mem.len() == st.mem.len() {
                                if let Some(dr2) = drv.as_mut() {
                                    validate_state(dr2, d, &st2, &probes, &mut obs, &mut stats, &mut drift, i);
                                    // the real input selection on this (real) version, against the model
                                    let mut prng = crate::prng::Prng::new(0x91C4 ^ (i as u64) ^ ((st2.next_file_number) << 16));
                                    for _ in 0..2 {
                                        match crate::pick::select(&st2.levels, &mut prng, dr2, "real-version") {
                                            crate::pick::Outcome::Agree(..) => stats.selections_checked += 1,
                                            crate::pick::Outcome::Drift(case, what) => drift.push(format!("{what} :: {case}")),
                                            crate::pick::Outcome::Invalid(_, what) => obs.push(Obs { sig: "c07:selected-compaction-inputs-invalid".into(), what, at: i }),
                                            crate::pick::Outcome::Panic(_) => obs.push(Obs { sig: "c09:input-selection-panics".into(), what: "finalize_compaction_inputs panicked on the database's own version".into(), at: i }),
                                            crate::pick::Outcome::Skipped => {}
                                        }
                                    }
                                }
                            }
                        }
                    }
                }
            }
            Op::Reopen(newcfg) | Op::CloseBusy(_, newcfg) => {
                // iterators and snapshots do not survive a close
                iters.clear();
                snap_seqs.clear();
                LIVE_SNAPS.with(|l| *l.borrow_mut() = Default::default());
                for (_, (s, _)) in std::mem::take(&mut snaps) {
                    d.release_snapshot(s);
                }
                let mut gate = None;
                if let Op::CloseBusy(k, _) = op {
                    crate::sched::reset();
                    let g = crate::sched::arm("bg", "bg:compact-loop", *k);
                    let keys: Vec<Vec<u8>> = oracle.keys().take(24).cloned().collect();
                    let mut n = 0usize;
                    while !g.wait_parked(std::time::Duration::from_millis(0)) && n < 600 {
                        n += 1;
                        // never write behind an immutable memtable: with the thread parked the writer
                        // would wait for it
                        if d.verif_state().imm.is_some() {
                            std::thread::sleep(std::time::Duration::from_millis(1));
                            continue;
                        }
                        let key = if keys.is_empty() { format!("zb{:02}", n % 12).into_bytes() } else { keys[n % keys.len()].clone() };
                        let mut v = format!("busy{n:04}-").into_bytes();
                        v.resize(40 + (n * 7) % 60, b'z');
                        if d.put(wo(), key.clone(), v.clone()).is_ok() {
                            oracle.insert(key, v);
                        }
                    }
                    gate = Some(g);
                } else {
                    let _ = settle(d, &mut stats, &mut obs, i, &mut drv, &mut chain);
                }
                let old = db.take().unwrap();
                match gate {
                    Some(g) if g.wait_parked(std::time::Duration::from_millis(0)) => {
                        stats.closes_during_table_compaction += 1;
                        let closer = std::thread::spawn(move || std::panic::catch_unwind(std::panic::AssertUnwindSafe(move || drop(old))).is_ok());
                        // the close sets the shutdown flag and waits for the parked task
                        std::thread::sleep(std::time::Duration::from_millis(25));
                        g.release();
                        let t0 = std::time::Instant::now();
                        while !closer.is_finished() && t0.elapsed() < std::time::Duration::from_secs(20) {
                            std::thread::sleep(std::time::Duration::from_millis(2));
                        }
                        crate::sched::reset();
                        if !closer.is_finished() {
                            obs.push(Obs { sig: "c09:close-never-returns".into(), what: "closing the database while its compaction thread was inside a table compaction did not return within 20 s".into(), at: i });
                            break;
                        }
                        if !closer.join().unwrap_or(false) {
                            obs.push(Obs { sig: "c09:panic-in-close".into(), what: "closing the database panicked".into(), at: i });
                            break;
                        }
                    }
                    other => {
                        if let Some(g) = other {
                            g.release();
                        }
                        crate::sched::reset();
                        let dropped = std::panic::catch_unwind(std::panic::AssertUnwindSafe(move || drop(old)));
                        if dropped.is_err() {
                            obs.push(Obs { sig: "c09:panic-in-close".into(), what: "closing the database panicked".into(), at: i });
                            break;
                        }
                    }
                }
                // what the closing instance still did (its last background task) belongs to its own
                // protocol run: validate it before the counters start again for the new instance
                let closing = raindb::verif::events_take(DB_PATH);
                if let Some(dr) = drv.as_mut() {
                    validate_events(dr, &closing, &mut obs, &mut stats, i, &mut chain);
                    SCHED.with(|t| {
                        let mut t = t.borrow_mut();
                        if let Some((sig, what)) = t.feed(&closing, dr) {
                            obs.push(Obs { sig, what, at: i });
                        }
                        t.reset();
                    });
                    SEEK.with(|t| {
                        let mut t = t.borrow_mut();
                        let size_of = |n: u64| -> Option<u64> { fs.read_file(std::path::Path::new(&format!("{DB_PATH}/data/{n}.rdb"))).map(|b| b.len() as u64) };
                        t.feed(&closing, dr, &size_of);
                        t.reopened();
                    });
                }
                cfg = newcfg.clone();
                MAX_FILE_SIZE.with(|m| m.set(cfg.file));
                stats.reopens += 1;
                chain = None; // recovery builds tables without recorded transitions
                match DB::open(cfg.options(fs)) {
                    Ok(nd) => {
                        if let Some(st) = settle(&nd, &mut stats, &mut obs, i, &mut drv, &mut chain) {
                            if checks.shape {
                                check_shape(&nd, &st, &mut obs, i);
                            }
                            if checks.files {
                                check_files(fs, &st, true, &mut obs, i);
                            }
                        }
                        db = Some(nd);
                    }
                    Err(e) => {
                        obs.push(Obs { sig: "c01:reopen-failed".into(), what: format!("reopening a cleanly closed database failed: {e}"), at: i });
                        break;
                    }
                }
            }
        }
        completed = i + 1;
        if obs.len() > 20 {
            break;
        }
    }
    // final: everything readable
    if let Some(d) = db.as_ref() {
        if obs.is_empty() {
            let at = h.ops.len();
            if let Some(st) = settle(d, &mut stats, &mut obs, at, &mut drv, &mut chain) {
                if checks.shape {
                    check_shape(d, &st, &mut obs, at);
                }
                for (name, r) in full_dump(d, &oracle, &snaps) {
                    if let Err(e) = r {
                        obs.push(Obs { sig: if name == "latest" { "c01:final-contents-mismatch".into() } else { "c03:final-snapshot-mismatch".into() }, what: format!("{name}: {e}"), at });
                    }
                }
                for (_, (s, _)) in std::mem::take(&mut snaps) {
                    d.release_snapshot(s);
                }
                snap_seqs.clear();
                LIVE_SNAPS.with(|l| *l.borrow_mut() = Default::default());
                if checks.files {
                    // the reads of the dump may have triggered seek compactions: take a fresh
                    // state. Releasing snapshots does not by itself trigger deletion, so only
                    // report what must hold with readers possibly having pinned files until now.
                    if let Some(st2) = settle(d, &mut stats, &mut obs, at, &mut drv, &mut chain) {
                        check_files(fs, &st2, false, &mut obs, at);
                    }
                }
            }
        }
    }
    for (_, (s, _)) in std::mem::take(&mut snaps) {
        if let Some(d) = db.as_ref() {
            d.release_snapshot(s);
        }
    }
    iters.clear();
    if foreign {
        for p in ["/db/ARCHIVE/old.txt", "/db/0notes.txt", "/db/data/README"].iter().chain(FOREIGN_LOOKALIKES.iter()) {
            if fs.read_file(std::path::Path::new(p)).is_none() {
                obs.push(Obs { sig: "c11:foreign-file-removed".into(), what: format!("{p}, a file the database does not own, was removed from its directory"), at: h.ops.len() });
            }
        }
    }
    if let Some(old) = db.take() {
        let dropped = std::panic::catch_unwind(std::panic::AssertUnwindSafe(move || drop(old)));
        if dropped.is_err() {
            obs.push(Obs { sig: "c09:panic-in-close".into(), what: "closing the database panicked".into(), at: h.ops.len() });
        }
    }
    SEEK.with(|t| {
        let mut t = t.borrow_mut();
        drift.extend(t.drift.drain(..));
        stats.seek_gets_checked = t.gets_checked;
        stats.seek_samples_checked = t.samples_checked;
        stats.seek_charges = t.charges;
        stats.seek_events_skipped = t.skipped;
        stats.seek_budgets_checked = t.allowed_checked;
        stats.seek_compactions_recorded = t.to_compact_seen;
        stats.seek_compactions_by_model = t.to_compact_by_model;
    });
    TABLE_SIZES.with(|f| *f.borrow_mut() = None);
    raindb::verif::set_seek_events(false);
    RunOut { drift, obs, stats, completed_ops: completed }
}

fn check_get(got: &Result<Vec<u8>, raindb::RainDBError>, want: Option<&Vec<u8>>, k: &[u8], sig: &str, ctx: &str, at: usize, obs: &mut Vec<Obs>) {
    match (got, want) {
        (Ok(v), Some(w)) => {
            if v != w {
                obs.push(Obs { sig: sig.into(), what: format!("get({}) at {ctx}: got a value of {} bytes ({}…), expected {} bytes ({}…)", hex(k), v.len(), hex(&v[..v.len().min(8)]), w.len(), hex(&w[..w.len().min(8)])), at });
            }
        }
        (Ok(v), None) => obs.push(Obs { sig: sig.into(), what: format!("get({}) at {ctx}: got a value of {} bytes, expected KeyNotFound", hex(k), v.len()), at }),
        (Err(raindb::RainDBError::KeyNotFound), None) => {}
        (Err(raindb::RainDBError::KeyNotFound), Some(w)) => obs.push(Obs { sig: sig.into(), what: format!("get({}) at {ctx}: KeyNotFound, expected a value of {} bytes", hex(k), w.len()), at }),
        (Err(e), _) => obs.push(Obs { sig: format!("{sig}-error"), what: format!("get({}) at {ctx} failed: {e}", hex(k)), at }),
    }
}

type Dump = Vec<(String, Result<(), String>)>;

/// full contents (scan + get of every key that ever mattered) at the latest state and at every
/// live snapshot, each compared with the oracle
fn full_dump(d: &DB, oracle: &Oracle, snaps: &BTreeMap<u32, (Snapshot, Oracle)>) -> Dump {
    let mut out = vec![];
    let mut one = |name: String, snap: Option<Snapshot>, want: &Oracle| {
        let r = (|| -> Result<(), String> {
            let got = scan_db(d, snap.clone())?;
            if let Some(diff) = describe_diff(&got, want) {
                return Err(format!("scan: {diff}"));
            }
            for (k, w) in want.iter() {
                match d.get(ReadOptions { fill_cache: true, snapshot: snap.clone() }, k) {
                    Ok(v) if &v == w => {}
                    Ok(v) => return Err(format!("get({}) returned {} bytes, expected {}", hex(k), v.len(), w.len())),
                    Err(e) => return Err(format!("get({}) failed: {e}", hex(k))),
                }
            }
            Ok(())
        })();
        out.push((name, r));
    };
    one("latest".to_string(), None, oracle);
    for (id, (s, frozen)) in snaps.iter() {
        one(format!("snapshot {id}"), Some(s.clone()), frozen);
    }
    // keys deleted at the latest state but present in some snapshot must stay deleted
    for (_, (_, frozen)) in snaps.iter() {
        for k in frozen.keys() {
            if !oracle.contains_key(k) {
                if let Ok(v) = d.get(ReadOptions::default(), k) {
                    out.push(("latest".to_string(), Err(format!("deleted key {} reappeared with a value of {} bytes", hex(k), v.len()))));
                    return out;
                }
            }
        }
    }
    out
}

fn compare_dumps(before: &Dump, after: &Dump, what: &str, at: usize, obs: &mut Vec<Obs>) {
    for ((name, b), (_, a)) in before.iter().zip(after.iter()) {
        match (b, a) {
            (Ok(()), Err(e)) => obs.push(Obs { sig: "c07:contents-changed".into(), what: format!("{what} changed the contents at {name}: {e}"), at }),
            (Err(e), _) => obs.push(Obs { sig: if name == "latest" { "c01:contents-mismatch".into() } else { "c03:snapshot-contents-mismatch".into() }, what: format!("before {what}, {name}: {e}"), at }),
            _ => {}
        }
    }
}

/// Run `f` on a separate thread with a deadline; `None` = it did not finish (hang).
pub fn with_deadline<T: Send + 'static>(secs: u64, f: impl FnOnce() -> T + Send + 'static) -> Option<T> {
    let slot: Arc<Mutex<Option<T>>> = Arc::new(Mutex::new(None));
    let done = Arc::new(AtomicBool::new(false));
    let (s2, d2) = (slot.clone(), done.clone());
    let handle = std::thread::Builder::new()
        .name("case".into())
        .stack_size(16 << 20)
        .spawn(move || {
            let r = f();
            *s2.lock().unwrap() = Some(r);
            d2.store(true, Ordering::SeqCst);
        })
        .unwrap();
    let t0 = std::time::Instant::now();
    while !done.load(Ordering::SeqCst) {
        if t0.elapsed() > Duration::from_secs(secs) {
            return None; // leak the thread
        }
        if handle.is_finished() {
            break;
        }
        std::thread::sleep(Duration::from_millis(2));
    }
    let _ = handle.join();
    let r = slot.lock().unwrap().take();
    r
}

// ---------------------------------------------------------------------------------------------
// generators

/// number of operations of a generated batch: usually `lo..=hi`, one time in twelve a count at which
/// the batch header's operation-count varint needs a second byte
pub fn gen_batch_len(rng: &mut Prng, lo: u64, hi: u64) -> u64 {
    if rng.chance(1, 12) {
        *rng.pick(&[127u64, 128, 129, 200])
    } else {
        rng.range(lo, hi)
    }
}

/// the operations of a generated batch (many-operation batches use short values so that they stay
/// in the write-ahead log of the larger memtable configurations)
pub fn gen_batch_ops(rng: &mut Prng, space: u64, lo: u64, hi: u64) -> Vec<(Vec<u8>, Option<Vec<u8>>)> {
    let n = gen_batch_len(rng, lo, hi);
    (0..n)
        .map(|i| {
            let k = if n > 16 { format!("b{:03}", (i * 7) % 211).into_bytes() } else { gen_key(rng, space) };
            if rng.chance(1, 4) {
                (k, None)
            } else if n > 16 {
                (k, Some(vec![b'v'; (i % 3) as usize]))
            } else {
                (k, Some(gen_val(rng, false)))
            }
        })
        .collect()
}

pub fn gen_key(rng: &mut Prng, space: u64) -> Vec<u8> {
    // a small key space with the interesting orderings: empty key, one byte, 0x00/0xff runs,
    // shared prefixes, adjacent keys
    let i = rng.below(space);
    match i % 12 {
        0 => vec![],
        1 => vec![b'a' + (i / 12 % 4) as u8],
        2 => vec![0xff; 1 + (i / 12 % 3) as usize],
        3 => vec![0x00; 1 + (i / 12 % 3) as usize],
        4 => format!("key{:03}", i / 12).into_bytes(),
        5 => format!("key{:03}x", i / 12).into_bytes(),
        6 => {
            // keys of more than 64 bytes that differ only in their last byte (every second one of
            // this class: 90 bytes with an 89-byte common prefix)
            let mut k = b"prefix/shared/long/".to_vec();
            if (i / 12) % 2 == 1 {
                k.extend_from_slice(&[b'p'; 70]);
            }
            k.push(b'a' + (i / 12 % 16) as u8);
            k
        }
        7 => vec![b'k', (i / 12) as u8],
        8 => vec![b'k', (i / 12) as u8, 0],
        9 => vec![b'k', (i / 12) as u8, 0xff],
        10 => vec![b'z', 0xff, 0xff, (i / 12) as u8],
        _ => format!("{:04}", i).into_bytes(),
    }
}

pub fn gen_val(rng: &mut Prng, big_ok: bool) -> Vec<u8> {
    match rng.below(24) {
        0 => vec![],
        1 => vec![rng.next() as u8],
        2 if big_ok => vec![b'B'; 33_000 + rng.below(3000) as usize], // larger than a WAL block
        3 if big_ok => vec![b'M'; 9_000 + rng.below(2000) as usize],  // larger than the memtable
        4 | 5 => vec![b'v'; rng.range(100, 400) as usize],
        _ => {
            let n = rng.range(1, 40) as usize;
            rng.bytes(n)
        }
    }
}
