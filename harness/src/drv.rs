//! Pipe to the compiled Lean model driver (`raindrv`): one request line, one answer line.

use std::io::{BufRead, BufReader, Write};
use std::process::{Child, ChildStdin, ChildStdout, Command, Stdio};

pub struct Drv {
    child: Option<Child>,
    stdin: Option<ChildStdin>,
    stdout: Option<BufReader<ChildStdout>>,
    pub requests: u64,
}

impl Drv {
    /// `path == "none"`: the executable model did not build; every request answers `no-model`
    /// and only the oracle checks run.
    pub fn spawn(path: &str) -> Drv {
        if path == "none" {
            return Drv { child: None, stdin: None, stdout: None, requests: 0 };
        }
        let mut child = Command::new(path)
            .stdin(Stdio::piped())
            .stdout(Stdio::piped())
            .spawn()
            .unwrap_or_else(|e| panic!("cannot start model driver {path}: {e}"));
        let stdin = child.stdin.take().unwrap();
        let stdout = BufReader::with_capacity(1 << 20, child.stdout.take().unwrap());
        Drv { child: Some(child), stdin: Some(stdin), stdout: Some(stdout), requests: 0 }
    }

    pub fn ask(&mut self, req: &str) -> String {
        let (stdin, stdout) = match (self.stdin.as_mut(), self.stdout.as_mut()) {
            (Some(a), Some(b)) => (a, b),
            _ => return "no-model".to_string(),
        };
        self.requests += 1;
        if let Ok(path) = std::env::var("VERIF_DRVLOG") {
            // debugging aid: the last request sent (a driver that never answers is stuck on it)
            let _ = std::fs::write(&path, req);
        }
        stdin.write_all(req.as_bytes()).unwrap();
        stdin.write_all(b"\n").unwrap();
        stdin.flush().unwrap();
        let mut line = String::new();
        let n = stdout.read_line(&mut line).unwrap();
        if n == 0 {
            panic!("model driver closed its output on request: {}", &req[..req.len().min(200)]);
        }
        line.trim_end().to_string()
    }
}

impl Drop for Drv {
    fn drop(&mut self) {
        if let Some(child) = self.child.as_mut() {
            let _ = child.kill();
            let _ = child.wait();
        }
    }
}

pub fn hex(bs: &[u8]) -> String {
    if bs.is_empty() {
        return "-".to_string();
    }
    let mut s = String::with_capacity(bs.len() * 2);
    for b in bs {
        s.push(char::from_digit((b >> 4) as u32, 16).unwrap());
        s.push(char::from_digit((b & 15) as u32, 16).unwrap());
    }
    s
}

pub fn unhex(s: &str) -> Option<Vec<u8>> {
    if s == "-" {
        return Some(vec![]);
    }
    if s.len() % 2 != 0 {
        return None;
    }
    let b = s.as_bytes();
    let mut out = Vec::with_capacity(s.len() / 2);
    for i in (0..b.len()).step_by(2) {
        let hi = (b[i] as char).to_digit(16)?;
        let lo = (b[i + 1] as char).to_digit(16)?;
        out.push((hi * 16 + lo) as u8);
    }
    Some(out)
}
