//! Pipe to the compiled Lean model driver (`raindrv`): one request line, one answer line.

use std::io::{BufRead, BufReader, Write};
use std::process::{Child, ChildStdin, ChildStdout, Command, Stdio};

pub struct Drv {
    child: Child,
    stdin: ChildStdin,
    stdout: BufReader<ChildStdout>,
    pub requests: u64,
}

impl Drv {
    pub fn spawn(path: &str) -> Drv {
        let mut child = Command::new(path)
            .stdin(Stdio::piped())
            .stdout(Stdio::piped())
            .spawn()
            .unwrap_or_else(|e| panic!("cannot start model driver {path}: {e}"));
        let stdin = child.stdin.take().unwrap();
        let stdout = BufReader::with_capacity(1 << 20, child.stdout.take().unwrap());
        Drv { child, stdin, stdout, requests: 0 }
    }

    pub fn ask(&mut self, req: &str) -> String {
        self.requests += 1;
        self.stdin.write_all(req.as_bytes()).unwrap();
        self.stdin.write_all(b"\n").unwrap();
        self.stdin.flush().unwrap();
        let mut line = String::new();
        let n = self.stdout.read_line(&mut line).unwrap();
        if n == 0 {
            panic!("model driver closed its output on request: {}", &req[..req.len().min(200)]);
        }
        line.trim_end().to_string()
    }
}

impl Drop for Drv {
    fn drop(&mut self) {
        let _ = self.child.kill();
        let _ = self.child.wait();
    }
}

pub fn hex(bs: &[u8]) -> String {
    if bs.is_empty() {
        return "-".to_string();
    }
    let mut s = String::with_capacity(bs.len() * 2);
    for b in bs {
        s.push(char::from_digit((b >> 4) as u32, 16).unwrap());
        s.push(char::from_digit((b & 15) as u32, 16).unwrap());
    }
    s
}

pub fn unhex(s: &str) -> Option<Vec<u8>> {
    if s == "-" {
        return Some(vec![]);
    }
    if s.len() % 2 != 0 {
        return None;
    }
    let b = s.as_bytes();
    let mut out = Vec::with_capacity(s.len() / 2);
    for i in (0..b.len()).step_by(2) {
        let hi = (b[i] as char).to_digit(16)?;
        let lo = (b[i + 1] as char).to_digit(16)?;
        out.push((hi * 16 + lo) as u8);
    }
    Some(out)
}
