//! C14 — filters never hide a key that is present.
//!
//! (1) `BloomFilterPolicy` (public API): generated key sets x bits-per-key 1..64: oracle =
//!     every seed key matches; model = filter bytes and match answers are identical.
//! (2) filter block builder/reader driven in the table builder's call pattern over generated
//!     block layouts (several blocks per 2 KiB range, one block spanning several ranges):
//!     oracle = every key of block i matches when asked with block i's start offset; model =
//!     filter block bytes and answers identical.

use raindb::filter_policy::{BloomFilterPolicy, FilterPolicy};
use raindb::verif::FilterOp;

use crate::drv::{hex, Drv};
use crate::prng::Prng;
use crate::report::Report;

#[derive(Clone, Debug)]
pub enum Case {
    /// bits per key, keys, extra probe keys
    Bloom { bpk: usize, keys: Vec<Vec<u8>>, probes: Vec<Vec<u8>> },
    /// bits per key, blocks (start offset, keys), extra (offset, key) queries
    Block { bpk: usize, blocks: Vec<(usize, Vec<Vec<u8>>)>, queries: Vec<(usize, Vec<u8>)> },
    /// a filter block whose middle data block holds `n` keys (counter keys, written compactly so that
    /// a 100 000-key case stays a short line): blocks of `pre`, `n`, `post` keys, `gap` bytes apart
    Big { bpk: usize, pre: usize, n: usize, post: usize, gap: usize },
}

fn hexlist(v: &[Vec<u8>]) -> String {
    v.iter().map(|k| hex(k)).collect::<Vec<_>>().join(",")
}
fn unhexlist(s: &str) -> Option<Vec<Vec<u8>>> {
    if s.is_empty() {
        return Some(vec![]);
    }
    s.split(',').map(crate::drv::unhex).collect()
}

impl Case {
    /// the counter keys of a `Big` case
    fn expand(&self) -> Case {
        match self {
            Case::Big { bpk, pre, n, post, gap } => {
                let mut ctr = 0u32;
                let mut mk = |cnt: usize| -> Vec<Vec<u8>> {
                    (0..cnt)
                        .map(|_| {
                            ctr += 1;
                            let mut k = ctr.to_be_bytes().to_vec();
                            k.truncate(1 + (ctr as usize % 4).max(2));
                            k.extend_from_slice(&ctr.to_le_bytes());
                            k
                        })
                        .collect()
                };
                let blocks = vec![(0usize, mk(*pre)), (*gap, mk(*n)), (2 * *gap, mk(*post))];
                Case::Block { bpk: *bpk, blocks, queries: vec![(*gap, vec![0xfe, 0xfe]), (0, vec![0xfd])] }
            }
            other => other.clone(),
        }
    }
    pub fn to_line(&self) -> String {
        match self {
            Case::Big { bpk, pre, n, post, gap } => format!("c14 big bpk={bpk} pre={pre} n={n} post={post} gap={gap}"),
            Case::Bloom { bpk, keys, probes } => format!("c14 bloom bpk={} keys={} probes={}", bpk, hexlist(keys), hexlist(probes)),
            Case::Block { bpk, blocks, queries } => format!(
                "c14 block bpk={} blocks={} queries={}",
                bpk,
                blocks.iter().map(|(o, ks)| format!("{}:{}", o, hexlist(ks))).collect::<Vec<_>>().join(";"),
                queries.iter().map(|(o, k)| format!("{}:{}", o, hex(k))).collect::<Vec<_>>().join(";")
            ),
        }
    }
    pub fn from_line(line: &str) -> Option<Case> {
        let toks: Vec<&str> = line.split_whitespace().collect();
        if toks.len() < 3 {
            return None;
        }
        let mut kv = std::collections::BTreeMap::new();
        for t in &toks[2..] {
            let (k, v) = t.split_once('=')?;
            kv.insert(k, v);
        }
        let bpk: usize = kv.get("bpk")?.parse().ok()?;
        match toks[1] {
            "big" => Some(Case::Big { bpk, pre: kv.get("pre")?.parse().ok()?, n: kv.get("n")?.parse().ok()?, post: kv.get("post")?.parse().ok()?, gap: kv.get("gap")?.parse().ok()? }),
            "bloom" => Some(Case::Bloom { bpk, keys: unhexlist(kv.get("keys")?)?, probes: unhexlist(kv.get("probes")?)? }),
            "block" => {
                let mut blocks = vec![];
                for b in kv.get("blocks")?.split(';').filter(|x| !x.is_empty()) {
                    let (o, ks) = b.split_once(':')?;
                    blocks.push((o.parse().ok()?, unhexlist(ks)?));
                }
                let mut queries = vec![];
                for q in kv.get("queries")?.split(';').filter(|x| !x.is_empty()) {
                    let (o, k) = q.split_once(':')?;
                    queries.push((o.parse().ok()?, crate::drv::unhex(k)?));
                }
                Some(Case::Block { bpk, blocks, queries })
            }
            _ => None,
        }
    }
}

pub fn run_case(c: &Case, drv: &mut Drv, rep: &mut Report) {
    let line = c.to_line();
    let big = matches!(c, Case::Big { .. });
    let c = &c.expand();
    match c {
        Case::Big { .. } => {}
        Case::Bloom { bpk, keys, probes } => {
            let policy = BloomFilterPolicy::new(*bpk);
            let filter = policy.create_filter(keys);
            rep.case(&line, !keys.is_empty());
            rep.count(&format!("bloom.keys.{}", size_class(keys.len())));
            rep.count(&format!("bloom.bpk.{}", if *bpk <= 4 { "1-4" } else if *bpk <= 16 { "5-16" } else { "17-64" }));
            // oracle: no false negative
            for k in keys {
                rep.count(&format!("bloom.keylen.mod4.{}", k.len() % 4));
                match policy.key_may_match(k, &filter) {
                    Ok(true) => {}
                    Ok(false) => {
                        rep.fail("oracle", "c14:bloom-false-negative", &format!("key {} of the seed set does not match its own filter", hex(k)), &line);
                        return;
                    }
                    Err(e) => {
                        rep.fail("oracle", "c14:bloom-error", &format!("key_may_match failed on a created filter: {e}"), &line);
                        return;
                    }
                }
            }
            // a reader configured with another bits-per-key setting (options change between the session
            // that wrote a table and the one that reads it): the probe count stored in the filter decides
            let other_bpk = ((*bpk * 7 + 3) % 64) + 1;
            let reader = BloomFilterPolicy::new(other_bpk);
            for k in keys.iter() {
                if let Ok(false) = reader.key_may_match(k, &filter) {
                    rep.fail("oracle", "c14:bloom-false-negative-with-other-reader-setting", &format!("key {} of the seed set (filter built with {bpk} bits per key) is rejected by a policy configured with {other_bpk} bits per key", hex(k)), &line);
                    return;
                }
            }
            for p in probes.iter() {
                let a = policy.key_may_match(p, &filter).ok();
                let b = reader.key_may_match(p, &filter).ok();
                if a != b {
                    rep.fail("oracle", "c14:bloom-answer-depends-on-reader-setting", &format!("probe {}: a policy with {bpk} bits per key answers {a:?}, one with {other_bpk} answers {b:?} on the same filter", hex(p)), &line);
                    return;
                }
            }
            // model: bytes
            let mut req = format!("bloom.create {}", bpk);
            for k in keys {
                req.push(' ');
                req.push_str(&hex(k));
            }
            let ans = drv.ask(&req);
            if ans != "no-model" && ans != hex(&filter) {
                rep.drift.push(format!("bloom filter bytes differ from the model :: {line}"));
                rep.count("model_drift");
            }
            for p in probes.iter().chain(keys.iter().take(3)) {
                let got = match policy.key_may_match(p, &filter) {
                    Ok(true) => "true",
                    Ok(false) => "false",
                    Err(_) => "err",
                };
                let ans = drv.ask(&format!("bloom.match {} {}", hex(p), hex(&filter)));
                rep.count(&format!("bloom.probe.{got}"));
                if ans != "no-model" && ans != got {
                    rep.drift.push(format!("bloom match differs from the model for {} (impl {got}, model {ans}) :: {line}", hex(p)));
                    rep.count("model_drift");
                }
            }
        }
        Case::Block { bpk, blocks, queries } => {
            let mut ops = vec![];
            for (i, (o, ks)) in blocks.iter().enumerate() {
                if i > 0 {
                    ops.push(FilterOp::Notify(*o));
                }
                for k in ks {
                    ops.push(FilterOp::Add(k.clone()));
                }
            }
            let data = raindb::verif::filter_block_build(*bpk, &ops);
            let nkeys: usize = blocks.iter().map(|b| b.1.len()).sum();
            rep.case(&line, nkeys > 0);
            // layout classes
            let mut shared = 0;
            let mut spanning = 0;
            for w in blocks.windows(2) {
                if w[0].0 / 2048 == w[1].0 / 2048 {
                    shared += 1;
                }
                if w[1].0 / 2048 > w[0].0 / 2048 + 1 {
                    spanning += 1;
                }
            }
            rep.add("block.pairs-sharing-a-range", shared);
            rep.add("block.blocks-spanning-ranges", spanning);
            rep.count(&format!("block.nblocks.{}", size_class(blocks.len())));
            // oracle
            let mut qs: Vec<(u64, Vec<u8>)> = vec![];
            for (o, ks) in blocks {
                for k in ks {
                    qs.push((*o as u64, k.clone()));
                }
            }
            let nown = qs.len();
            for (o, k) in queries {
                qs.push((*o as u64, k.clone()));
            }
            let answers = match raindb::verif::filter_block_match(*bpk, data.clone(), &qs) {
                Ok(a) => a,
                Err(e) => {
                    rep.fail("oracle", "c14:filter-block-unreadable", &format!("a freshly built filter block cannot be parsed: {e}"), &line);
                    return;
                }
            };
            for i in 0..nown {
                if !answers[i] {
                    rep.fail(
                        "oracle",
                        "c14:filter-block-false-negative",
                        &format!("key {} stored in the block at offset {} is rejected by the filter block", hex(&qs[i].1), qs[i].0),
                        &line,
                    );
                    return;
                }
            }
            // model
            let mut req = format!("filter.build {}", bpk);
            for (o, ks) in blocks {
                req.push_str(&format!(" {}:{}", o, hexlist(ks)));
            }
            let ans = if big && nkeys > 5_000 { "no-model".to_string() } else { drv.ask(&req) };
            if big {
                rep.count(&format!("block.big.keys-in-one-block.{}", if nkeys > 131_072 { ">2^17" } else if nkeys > 65_536 { ">2^16" } else if nkeys > 32_768 { ">2^15" } else if nkeys > 4096 { ">2^12" } else { "<=2^12" }));
            }
            if ans != "no-model" && ans != hex(&data) {
                rep.drift.push(format!("filter block bytes differ from the model :: {line}"));
                rep.count("model_drift");
            }
            for (i, (o, k)) in qs.iter().enumerate().skip(nown.saturating_sub(4)) {
                let ans = if big && nkeys > 5_000 { "no-model".to_string() } else { drv.ask(&format!("filter.match {} {} {}", hex(&data), o, hex(k))) };
                let got = if answers[i] { "true" } else { "false" };
                rep.count(&format!("block.query.{got}"));
                if ans != "no-model" && ans != got {
                    rep.drift.push(format!("filter block answer differs from the model at offset {o} key {} (impl {got}, model {ans}) :: {line}", hex(k)));
                    rep.count("model_drift");
                }
            }
        }
    }
}

fn size_class(n: usize) -> &'static str {
    match n {
        0 => "0",
        1 => "1",
        2..=9 => "2-9",
        10..=99 => "10-99",
        100..=999 => "100-999",
        _ => "1000+",
    }
}

pub fn gen_key(rng: &mut Prng) -> Vec<u8> {
    let len = match rng.below(8) {
        0 => 0,
        1 => 1,
        2 => rng.range(2, 5) as usize,
        3 | 4 => rng.range(4, 24) as usize,
        5 => rng.range(0, 9) as usize,
        6 => rng.range(30, 70) as usize,
        _ => rng.range(0, 16) as usize,
    };
    match rng.below(4) {
        0 => vec![0xff; len],
        1 => (0..len).map(|_| *rng.pick(&[0u8, 1, 0x7f, 0x80, 0xff, b'a'])).collect(),
        _ => rng.bytes(len),
    }
}

fn job(c: &Case, drv: &mut Drv, rep: &mut Report) {
    run_case(c, drv, rep)
}

pub fn run(tier: &str, seed: u64, drv_path: &str, replay: Option<&str>, corpus: &str) -> Report {
    let mut rep = Report::new(
        "c14",
        "(1) Bloom policy via the public API: key sets of size 0..5000 (duplicates, empty key, every length mod 4, 0xff runs) x bits_per_key 1..64 (every value visited); (2) filter block builder/reader in the table builder's call order over generated block layouts (gaps 1..6000 bytes: several blocks per 2 KiB range and blocks spanning several ranges, blocks without keys); (3) one data block holding 255 .. 70 000 keys (thorough: up to 262 145), counts around powers of two. Non-trivial = at least one key; distinct by case text.",
    );
    if let Some(line) = replay {
        let mut drv = Drv::spawn(drv_path);
        match Case::from_line(line) {
            None => rep.fail("oracle", "c14:bad-replay", "cannot parse replay case", line),
            Some(c) => run_case(&c, &mut drv, &mut rep),
        }
        rep.model_requests = drv.requests;
        return rep;
    }
    let thorough = tier == "thorough";
    let mut rng = Prng::new(seed ^ 0xC14);
    let mut jobs: Vec<Case> = vec![];
    if let Ok(rd) = std::fs::read_dir(corpus) {
        for e in rd.flatten() {
            if let Ok(txt) = std::fs::read_to_string(e.path()) {
                jobs.extend(txt.lines().filter_map(Case::from_line));
            }
        }
    }
    // (1) every bits-per-key value 1..=64, several key-set sizes each
    let reps = if thorough { 12 } else { 3 };
    for bpk in 1..=64usize {
        for r in 0..reps {
            let n = match (r + bpk) % 6 {
                0 => 0,
                1 => 1,
                2 => rng.range(2, 9) as usize,
                3 => rng.range(10, 99) as usize,
                4 => rng.range(100, 600) as usize,
                _ => {
                    if thorough {
                        rng.range(1000, 5000) as usize
                    } else {
                        rng.range(100, 1200) as usize
                    }
                }
            };
            let mut keys: Vec<Vec<u8>> = (0..n).map(|_| gen_key(&mut rng)).collect();
            if n > 2 && rng.chance(1, 2) {
                let d = keys[0].clone();
                keys.push(d); // duplicates
            }
            let probes = (0..6).map(|_| gen_key(&mut rng)).collect();
            jobs.push(Case::Bloom { bpk, keys, probes });
        }
    }
    // a few values outside the property's stated range
    for bpk in [0usize, 65, 99, 128] {
        let keys: Vec<Vec<u8>> = (0..20).map(|_| gen_key(&mut rng)).collect();
        jobs.push(Case::Bloom { bpk, keys, probes: vec![] });
    }
    // (2) filter block layouts
    let nblk = if thorough { 3000 } else { 400 };
    for _ in 0..nblk {
        let bpk = rng.range(1, 64) as usize;
        let nb = rng.range(1, 12) as usize;
        let mut off = 0usize;
        let mut blocks = vec![];
        let style = rng.below(4);
        for _ in 0..nb {
            let nk = if rng.chance(1, 8) { 0 } else { rng.range(1, 12) as usize };
            let ks: Vec<Vec<u8>> = (0..nk).map(|_| gen_key(&mut rng)).collect();
            blocks.push((off, ks));
            off += match style {
                0 => rng.range(20, 700) as usize,     // many blocks per range
                1 => rng.range(2049, 9000) as usize,  // each block spans ranges
                2 => *rng.pick(&[2047usize, 2048, 2049, 1, 4096, 4095]),
                _ => rng.range(1, 6000) as usize,
            };
        }
        let queries = (0..4).map(|_| (rng.below(off as u64 + 5000) as usize, gen_key(&mut rng))).collect();
        jobs.push(Case::Block { bpk, blocks, queries });
    }
    // (3) very many keys in one data block (a huge max_block_size with tiny entries): counts around
    // powers of two, where a builder that buffers keys might cut a filter early
    let mut sizes: Vec<usize> = vec![255, 256, 257, 1023, 1025, 4095, 4097, 16_385, 32_769, 65_535, 65_536, 65_537, 70_000];
    if thorough {
        sizes.extend([131_071, 131_073, 200_000, 262_145]);
    }
    for n in sizes {
        let bpk = rng.range(1, 64) as usize;
        let gap = *rng.pick(&[700usize, 2048, 5000, 1 << 20]);
        jobs.push(Case::Big { bpk, pre: rng.range(0, 5) as usize, n, post: rng.range(0, 5) as usize, gap });
    }
    let rule = rep.rule.clone();
    crate::par::run_jobs(jobs, drv_path, &mut rep, job);
    rep.rule = rule;
    rep
}
