//! Result of a harness run, written as JSON for the `check` runner.

use std::collections::BTreeMap;
use std::collections::BTreeSet;

#[derive(Clone, Debug)]
pub struct Failure {
    /// oracle | contract | model | panic | hang
    pub kind: String,
    /// stable, specific fingerprint (used to match known findings)
    pub signature: String,
    pub what: String,
    /// replayable case in the harness's line format
    pub case: String,
}

#[derive(Default)]
pub struct Report {
    pub component: String,
    pub evaluations: u64,
    pub nontrivial: BTreeSet<u64>,
    pub rule: String,
    pub samples: Vec<String>,
    pub dist: BTreeMap<String, u64>,
    pub failures: Vec<Failure>,
    pub drift: Vec<String>,
    pub notes: Vec<String>,
    pub model_requests: u64,
}

pub fn fnv(s: &[u8]) -> u64 {
    let mut h: u64 = 0xcbf29ce484222325;
    for b in s {
        h ^= *b as u64;
        h = h.wrapping_mul(0x100000001b3);
    }
    h
}

impl Report {
    pub fn new(component: &str, rule: &str) -> Report {
        Report { component: component.to_string(), rule: rule.to_string(), ..Default::default() }
    }
    pub fn count(&mut self, key: &str) {
        *self.dist.entry(key.to_string()).or_insert(0) += 1;
    }
    pub fn add(&mut self, key: &str, n: u64) {
        *self.dist.entry(key.to_string()).or_insert(0) += n;
    }
    /// one evaluated case; `nontrivial` = counts towards distinct_nontrivial, keyed by its text
    pub fn case(&mut self, text: &str, nontrivial: bool) {
        self.evaluations += 1;
        if nontrivial {
            self.nontrivial.insert(fnv(text.as_bytes()));
        }
        if self.samples.len() < 5 || (self.evaluations % 997 == 0 && self.samples.len() < 12) {
            let mut t = text.to_string();
            if t.len() > 600 {
                t.truncate(600);
                t.push_str("…");
            }
            self.samples.push(t);
        }
    }
    pub fn fail(&mut self, kind: &str, signature: &str, what: &str, case: &str) {
        if self.failures.len() < 200 {
            self.failures.push(Failure {
                kind: kind.to_string(),
                signature: signature.to_string(),
                what: what.to_string(),
                case: case.to_string(),
            });
        }
        self.count(&format!("failures.{kind}"));
    }
    pub fn merge(&mut self, other: Report) {
        self.evaluations += other.evaluations;
        self.nontrivial.extend(other.nontrivial);
        for s in other.samples {
            if self.samples.len() < 16 {
                self.samples.push(s);
            }
        }
        for (k, v) in other.dist {
            if k.contains(".max-") || k.contains(".deepest") {
                let e = self.dist.entry(k).or_insert(0);
                *e = (*e).max(v);
            } else {
                *self.dist.entry(k).or_insert(0) += v;
            }
        }
        self.failures.extend(other.failures);
        self.drift.extend(other.drift);
        self.notes.extend(other.notes);
        self.model_requests += other.model_requests;
        if !other.rule.is_empty() {
            if !self.rule.is_empty() {
                self.rule.push_str(" || ");
            }
            self.rule.push_str(&other.rule);
        }
    }
    pub fn to_json(&self) -> String {
        let mut s = String::new();
        s.push_str("{");
        s.push_str(&format!("\"component\":{},", jstr(&self.component)));
        s.push_str(&format!("\"evaluations\":{},", self.evaluations));
        s.push_str(&format!("\"distinct_nontrivial\":{},", self.nontrivial.len()));
        s.push_str(&format!("\"model_requests\":{},", self.model_requests));
        s.push_str(&format!("\"rule\":{},", jstr(&self.rule)));
        s.push_str(&format!("\"samples\":[{}],", self.samples.iter().map(|x| jstr(x)).collect::<Vec<_>>().join(",")));
        s.push_str(&format!(
            "\"distribution\":{{{}}},",
            self.dist.iter().map(|(k, v)| format!("{}:{}", jstr(k), v)).collect::<Vec<_>>().join(",")
        ));
        s.push_str(&format!("\"drift\":[{}],", self.drift.iter().take(50).map(|x| jstr(x)).collect::<Vec<_>>().join(",")));
        s.push_str(&format!("\"notes\":[{}],", self.notes.iter().take(50).map(|x| jstr(x)).collect::<Vec<_>>().join(",")));
        s.push_str(&format!(
            "\"failures\":[{}]",
            self.failures
                .iter()
                .map(|f| format!(
                    "{{\"kind\":{},\"signature\":{},\"what\":{},\"case\":{}}}",
                    jstr(&f.kind),
                    jstr(&f.signature),
                    jstr(&f.what),
                    jstr(&f.case)
                ))
                .collect::<Vec<_>>()
                .join(",")
        ));
        s.push_str("}");
        s
    }
}

pub fn jstr(s: &str) -> String {
    let mut o = String::with_capacity(s.len() + 2);
    o.push('"');
    for c in s.chars() {
        match c {
            '"' => o.push_str("\\\""),
            '\\' => o.push_str("\\\\"),
            '\n' => o.push_str("\\n"),
            '\r' => o.push_str("\\r"),
            '\t' => o.push_str("\\t"),
            c if (c as u32) < 0x20 => o.push_str(&format!("\\u{:04x}", c as u32)),
            c => o.push(c),
        }
    }
    o.push('"');
    o
}

fn esc(s: &str) -> String {
    s.replace('\\', "\\\\").replace('\n', "\\n").replace('\t', "\\t")
}
fn unesc(s: &str) -> String {
    let mut o = String::with_capacity(s.len());
    let mut it = s.chars();
    while let Some(c) = it.next() {
        if c == '\\' {
            match it.next() {
                Some('n') => o.push('\n'),
                Some('t') => o.push('\t'),
                Some('\\') => o.push('\\'),
                Some(x) => {
                    o.push('\\');
                    o.push(x)
                }
                None => o.push('\\'),
            }
        } else {
            o.push(c);
        }
    }
    o
}

impl Report {
    /// line format used between shard processes and their parent
    pub fn to_lines(&self) -> String {
        let mut s = String::new();
        s.push_str(&format!("C\t{}\n", esc(&self.component)));
        s.push_str(&format!("E\t{}\n", self.evaluations));
        s.push_str(&format!("M\t{}\n", self.model_requests));
        s.push_str(&format!("R\t{}\n", esc(&self.rule)));
        for h in &self.nontrivial {
            s.push_str(&format!("N\t{h}\n"));
        }
        for x in &self.samples {
            s.push_str(&format!("S\t{}\n", esc(x)));
        }
        for (k, v) in &self.dist {
            s.push_str(&format!("D\t{}\t{}\n", esc(k), v));
        }
        for f in &self.failures {
            s.push_str(&format!("F\t{}\t{}\t{}\t{}\n", esc(&f.kind), esc(&f.signature), esc(&f.what), esc(&f.case)));
        }
        for x in &self.drift {
            s.push_str(&format!("X\t{}\n", esc(x)));
        }
        for x in &self.notes {
            s.push_str(&format!("O\t{}\n", esc(x)));
        }
        s
    }
}

/// inverse of `to_lines` (the name is historical: shard outputs are exchanged in this format)
pub fn from_json(s: &str) -> Option<Report> {
    let mut r = Report::default();
    for line in s.lines() {
        let p: Vec<&str> = line.split('\t').collect();
        match p.first().copied()? {
            "C" => r.component = unesc(p.get(1)?),
            "E" => r.evaluations = p.get(1)?.parse().ok()?,
            "M" => r.model_requests = p.get(1)?.parse().ok()?,
            "R" => r.rule = String::new(),
            "N" => {
                r.nontrivial.insert(p.get(1)?.parse().ok()?);
            }
            "S" => r.samples.push(unesc(p.get(1)?)),
            "D" => {
                r.dist.insert(unesc(p.get(1)?), p.get(2)?.parse().ok()?);
            }
            "F" => r.failures.push(Failure { kind: unesc(p.get(1)?), signature: unesc(p.get(2)?), what: unesc(p.get(3)?), case: unesc(p.get(4)?) }),
            "X" => r.drift.push(unesc(p.get(1)?)),
            "O" => r.notes.push(unesc(p.get(1)?)),
            _ => {}
        }
    }
    Some(r)
}
