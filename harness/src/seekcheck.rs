//! Tie between the Lean model of seek charging (`Rain/Seek.lean`) and the real code.
//!
//! With `verif::set_seek_events(true)` the database records one `Event::Seek` for every `DB::get`
//! that reaches `Version::get` and for every `Version::record_read_sample`: the internal key, the
//! (level, file) handed to `update_stats` and the files of the version that was searched. The
//! tracker replays them, in the order recorded, against the model:
//!
//! * the charged file must be the one the model's `getCharge` / `sampleCharge` computes on that
//!   version (files and their entries are reconstructed from the flush / compaction events and
//!   the state dumps);
//! * `allowed_seeks` of every file in a state dump must be the model's `initialAllowed size`
//!   minus the charges recorded since the file's metadata was created (flush, compaction output,
//!   trivial move, reopen), each applied with the model's `updateStats`;
//! * `SeekCompactionMetadata` of the current version in a state dump must be what `updateStats`
//!   left over the reads recorded on that version (a new version starts without one).
//!
//! A disagreement is model/implementation drift (reported by the caller as a violation of its own).

use std::collections::{BTreeMap, HashMap};

use raindb::verif::{Entry, Event, FileDump, StateDump};
use raindb::DB;

use crate::drv::{hex, Drv};

#[derive(Default)]
pub struct SeekTracker {
    /// file number -> (smallest, largest, entries)
    files: BTreeMap<u64, (raindb::verif::IKey, raindb::verif::IKey, Vec<Entry>)>,
    sizes: BTreeMap<u64, u64>,
    /// the model's `allowed_seeks` of every file whose size is known
    /// (keyed by file number and level: a trivial move adds the file to the next level as NEW metadata,
    /// and a read may still charge the old object until the new version is installed)
    allowed: BTreeMap<(u64, usize), i64>,
    /// files charged before their size was known: the model cannot follow them
    uncertain: std::collections::BTreeSet<(u64, usize)>,
    /// version (file numbers per level, in the version's order) the tracked `file_to_compact` belongs to
    tc_version: Option<Vec<Vec<u64>>>,
    tc: Option<(u64, usize)>,
    tc_uncertain: bool,
    /// a flush / move / compaction was recorded and no read has proved yet that its version is
    /// installed: the files of the version it was based on
    pending_install: Option<Vec<Vec<u64>>>,
    /// answers of the model for the version `ans_version`
    ans_version: Option<Vec<Vec<u64>>>,
    ans_cache: HashMap<(bool, Vec<u8>, u64), String>,
    tok_cache: HashMap<Vec<Vec<u64>>, String>,
    pub drift: Vec<String>,
    pub gets_checked: u64,
    pub samples_checked: u64,
    pub charges: u64,
    pub skipped: u64,
    pub allowed_checked: u64,
    pub to_compact_seen: u64,
    pub to_compact_by_model: u64,
}

fn ordered(levels: &[Vec<FileDump>]) -> Vec<Vec<u64>> {
    levels.iter().map(|l| l.iter().map(|f| f.number).collect()).collect()
}

impl SeekTracker {
    pub fn reset_all(&mut self) {
        *self = SeekTracker::default();
    }

    /// a close + reopen creates every file's metadata again
    pub fn reopened(&mut self) {
        self.allowed.clear();
        self.uncertain.clear();
        self.tc_version = None;
        self.tc = None;
        self.tc_uncertain = false;
        self.pending_install = None;
    }

    fn new_file(&mut self, num: u64, entries: &[Entry], size: Option<u64>) {
        if let (Some(a), Some(b)) = (entries.first(), entries.last()) {
            self.files.insert(num, ((a.0.clone(), a.1, a.2), (b.0.clone(), b.1, b.2), entries.to_vec()));
        }
        if let Some(s) = size {
            self.sizes.insert(num, s);
        }
    }

    /// the model's budget of the metadata object (file, level), created on first use
    fn budget(&mut self, num: u64, level: usize, drv: &mut Drv, size_of: &dyn Fn(u64) -> Option<u64>) -> Option<i64> {
        if let Some(a) = self.allowed.get(&(num, level)) {
            return Some(*a);
        }
        if self.uncertain.contains(&(num, level)) {
            return None;
        }
        let size = match self.sizes.get(&num).copied().or_else(|| size_of(num)) {
            Some(s) => s,
            None => {
                self.uncertain.insert((num, level));
                return None;
            }
        };
        self.sizes.insert(num, size);
        match drv.ask(&format!("seek.init {size}")).parse::<i64>() {
            Ok(a) => {
                self.allowed.insert((num, level), a);
                Some(a)
            }
            Err(_) => None,
        }
    }

    /// learn files the events did not introduce (tables built by recovery) from a state dump
    pub fn learn(&mut self, db: &DB, st: &StateDump, drv: &mut Drv) {
        for l in &st.levels {
            for f in l {
                self.sizes.entry(f.number).or_insert(f.size);
                if !self.files.contains_key(&f.number) {
                    if let Ok(es) = db.verif_table_entries(f.number) {
                        self.files.insert(f.number, (f.smallest.clone(), f.largest.clone(), es));
                    }
                }
            }
        }
    }

    fn levels_tok(&mut self, version: &Vec<Vec<u64>>) -> Option<String> {
        if let Some(t) = self.tok_cache.get(version) {
            return Some(t.clone());
        }
        let mut levels: Vec<Vec<FileDump>> = vec![];
        let mut entries: BTreeMap<u64, Vec<Entry>> = BTreeMap::new();
        for l in version {
            let mut fl = vec![];
            for n in l {
                let (s, g, es) = self.files.get(n)?;
                fl.push(FileDump { number: *n, size: self.sizes.get(n).copied().unwrap_or(0), smallest: s.clone(), largest: g.clone(), allowed_seeks: 0 });
                entries.insert(*n, es.clone());
            }
            levels.push(fl);
        }
        let t = crate::dbsim::levels_tok(&levels, &entries);
        if self.tok_cache.len() > 64 {
            self.tok_cache.clear();
        }
        self.tok_cache.insert(version.clone(), t.clone());
        Some(t)
    }

    /// replay recorded events in order; `size_of` answers the size of a table file by number when
    /// no dump has shown it yet
    pub fn feed(&mut self, events: &[Event], drv: &mut Drv, size_of: &dyn Fn(u64) -> Option<u64>) {
        for ev in events {
            match ev {
                Event::Flush { file, size, entries, levels_before, .. } => {
                    if *size > 0 {
                        self.new_file(*file, entries, Some(*size));
                    }
                    // also an empty flush installs a new version (same files, no file_to_compact)
                    self.pending_install = Some(ordered(levels_before));
                }
                Event::TrivialMove { levels_before, .. } => {
                    self.pending_install = Some(ordered(levels_before));
                }
                Event::Compaction { output_entries, levels_before, .. } => {
                    self.pending_install = Some(ordered(levels_before));
                    for (n, es) in output_entries {
                        let sz = size_of(*n);
                        self.new_file(*n, es, sz);
                    }
                }
                Event::Seek { kind, user_key, sequence, charged, version_files } => {
                    let tok = match self.levels_tok(version_files) {
                        Some(t) => t,
                        None => {
                            self.skipped += 1;
                            if let Some((l, n)) = charged {
                                self.allowed.remove(&(*n, *l));
                                self.uncertain.insert((*n, *l));
                            }
                            self.tc_uncertain = true;
                            continue;
                        }
                    };
                    let ck = (*kind == "get", user_key.clone(), *sequence);
                    if self.ans_version.as_ref() != Some(version_files) || !self.ans_cache.contains_key(&ck) {
                        // ask the model once for every read recorded on this version in this batch
                        if self.ans_version.as_ref() != Some(version_files) {
                            self.ans_version = Some(version_files.clone());
                            self.ans_cache.clear();
                        }
                        for is_get in [true, false] {
                            let mut qs: Vec<(Vec<u8>, u64)> = vec![];
                            let mut seen = std::collections::HashSet::new();
                            for e2 in events {
                                if let Event::Seek { kind: k2, user_key: u2, sequence: s2, version_files: v2, .. } = e2 {
                                    if (*k2 == "get") == is_get && v2 == version_files && !self.ans_cache.contains_key(&(is_get, u2.clone(), *s2)) && seen.insert((u2.clone(), *s2)) {
                                        qs.push((u2.clone(), *s2));
                                    }
                                }
                            }
                            for chunk in qs.chunks(4000) {
                                let q = chunk.iter().map(|(k, s)| format!("{}/{}", hex(k), s)).collect::<Vec<_>>().join(",");
                                let a = drv.ask(&format!("{} {tok} {q}", if is_get { "seek.get" } else { "seek.sample" }));
                                if a == "no-model" {
                                    return;
                                }
                                let parts: Vec<&str> = a.split(' ').collect();
                                if parts.len() != chunk.len() {
                                    self.drift.push(format!("seek charge: the model answered {} values for {} queries ({})", parts.len(), chunk.len(), &a[..a.len().min(120)]));
                                    return;
                                }
                                for ((k, s), w) in chunk.iter().zip(parts.iter()) {
                                    self.ans_cache.insert((is_get, k.clone(), *s), w.to_string());
                                }
                            }
                        }
                    }
                    let want = match self.ans_cache.get(&ck) {
                        Some(w) => w.clone(),
                        None => continue,
                    };
                    if want == "no-model" {
                        return;
                    }
                    let got = charged.map_or("-".to_string(), |(l, n)| format!("{l}:{n}"));
                    if *kind == "get" {
                        self.gets_checked += 1;
                    } else {
                        self.samples_checked += 1;
                    }
                    if want != got {
                        self.drift.push(format!(
                            "seek charge: {} for key {} at sequence {} on version {:?} charged {} in the database, the model's {} gives {}",
                            if *kind == "get" { "Version::get" } else { "Version::record_read_sample" },
                            hex(user_key), sequence, version_files, got,
                            if *kind == "get" { "getCharge" } else { "sampleCharge" }, want
                        ));
                    }
                    if let Some(pre) = self.pending_install.as_ref() {
                        if pre == version_files {
                            // the version the pending change is based on, or the new one if the
                            // change left the files as they are (an empty flush): cannot tell
                            self.tc_uncertain = true;
                        } else {
                            self.pending_install = None;
                        }
                    }
                    if self.tc_version.as_ref() != Some(version_files) {
                        self.tc_version = Some(version_files.clone());
                        self.tc = None;
                        self.tc_uncertain = false;
                    }
                    if let Some((l, n)) = charged {
                        self.charges += 1;
                        match self.budget(*n, *l, drv, size_of) {
                            Some(a) => {
                                let tcs = self.tc.map_or("-".to_string(), |(f, lv)| format!("{f}:{lv}"));
                                let ans = drv.ask(&format!("seek.update {a} {tcs} {l}:{n}"));
                                let p: Vec<&str> = ans.split(' ').collect();
                                if p.len() == 3 {
                                    if p[2] == "true" {
                                        self.to_compact_by_model += 1;
                                    }
                                    if let Ok(na) = p[0].parse::<i64>() {
                                        self.allowed.insert((*n, *l), na);
                                    }
                                    self.tc = if p[1] == "-" {
                                        None
                                    } else {
                                        let q: Vec<&str> = p[1].split(':').collect();
                                        match (q.first().and_then(|x| x.parse().ok()), q.get(1).and_then(|x| x.parse().ok())) {
                                            (Some(f), Some(lv)) => Some((f, lv)),
                                            _ => None,
                                        }
                                    };
                                }
                            }
                            None => {
                                self.uncertain.insert((*n, *l));
                                self.tc_uncertain = true;
                            }
                        }
                    }
                }
                _ => {}
            }
        }
    }

    /// compare a state dump (taken after the events recorded so far have been fed) with the model
    pub fn check_state(&mut self, st: &StateDump, drv: &mut Drv) {
        for (lv, l) in st.levels.iter().enumerate() {
            for f in l {
                self.sizes.insert(f.number, f.size);
                if let Some(a) = self.budget(f.number, lv, drv, &|_| None) {
                    self.allowed_checked += 1;
                    if a != f.allowed_seeks {
                        self.drift.push(format!(
                            "seek budget: allowed_seeks of table {} at level {lv} (size {}) is {} in the database, the model's initialAllowed/updateStats over the recorded charges gives {}",
                            f.number, f.size, f.allowed_seeks, a
                        ));
                        // do not repeat the same difference at every later dump
                        self.allowed.insert((f.number, lv), f.allowed_seeks);
                    }
                }
            }
        }
        let cur = ordered(&st.levels);
        if st.seek_compaction.is_some() {
            self.to_compact_seen += 1;
        }
        if self.pending_install.take().is_some() || self.tc_uncertain {
            // a version was installed since the last read that identified its version: the
            // current version may be a new object with the same files; follow the database
            self.tc_version = Some(cur);
            self.tc = st.seek_compaction;
            self.tc_uncertain = false;
        } else if self.tc_version.as_ref() == Some(&cur) {
            if !self.tc_uncertain && self.tc != st.seek_compaction {
                self.drift.push(format!(
                    "seek compaction metadata: the current version {:?} records file_to_compact (file, level) = {:?}, the model's updateStats over the reads recorded on this version gives {:?}",
                    cur, st.seek_compaction, self.tc
                ));
                self.tc = st.seek_compaction;
            }
        } else if let Some(x) = st.seek_compaction {
            self.drift.push(format!("seek compaction metadata: the current version {:?} records file_to_compact {:?} although no read was recorded on it (a new version starts without one)", cur, x));
            self.tc_version = Some(cur);
            self.tc = Some(x);
        }
    }
}
