//! Simulated filesystem implementing the public `raindb::fs::FileSystem` trait.
//!
//! * POSIX-like semantics: per-handle cursors, O_APPEND for `create_file(_, true)`, open handles
//!   keep their inode after remove/rename, rename replaces.
//! * Every mutating operation is appended to a totally ordered log; `image_at(i, torn)` rebuilds
//!   the durable state after the first `i` operations (optionally with operation `i` applied to a
//!   byte prefix only) — the crash images of C02/C16.
//! * Every call (mutating or not) is counted; a fault plan makes call `n` (or every call from `n`
//!   on) fail with an I/O error — C08.
//! * Advisory exclusive lock per path (`lock_file`), released when the handle is dropped.

use parking_lot::Mutex;
use std::collections::{BTreeMap, BTreeSet};
use std::io::{self, Read, Seek, SeekFrom, Write};
use std::path::{Path, PathBuf};
use std::sync::Arc;

use raindb::fs::{FileLock, FileSystem, RandomAccessFile, ReadonlyRandomAccessFile, UnlockableFile};

#[derive(Clone, Debug, PartialEq, Eq)]
pub enum Op {
    Mkdir(PathBuf),
    /// path, inode id, truncate
    Create(PathBuf, u64, bool),
    /// inode id, offset (None = append at end), data
    Write(u64, Option<usize>, Vec<u8>),
    Rename(PathBuf, PathBuf),
    Remove(PathBuf),
    RemoveDir(PathBuf, bool),
}

impl Op {
    pub fn kind(&self) -> &'static str {
        match self {
            Op::Mkdir(_) => "mkdir",
            Op::Create(_, _, _) => "create",
            Op::Write(_, _, _) => "write",
            Op::Rename(_, _) => "rename",
            Op::Remove(_) => "remove",
            Op::RemoveDir(_, _) => "rmdir",
        }
    }
}

#[derive(Clone, Debug, Default)]
pub struct FaultPlan {
    /// fail the call with this index (0-based over all counted calls)
    pub at: u64,
    /// also fail every later call
    pub sticky: bool,
    /// a failing `write` first writes the first half of its buffer (a short write followed by an
    /// error, as a full disk or a dropped connection produces)
    pub partial: bool,
}

type Inode = Arc<Mutex<Vec<u8>>>;

#[derive(Default)]
struct Inner {
    files: BTreeMap<PathBuf, (u64, Inode)>,
    dirs: BTreeSet<PathBuf>,
    next_inode: u64,
    inode_paths: BTreeMap<u64, PathBuf>,
    oplog: Vec<Op>,
    recording: bool,
    calls: u64,
    call_kinds: Vec<(&'static str, String)>,
    record_calls: bool,
    fault: Option<FaultPlan>,
    faults_fired: u64,
    locks: BTreeSet<PathBuf>,
    /// remaining successful `write` calls before every write fails (None = unlimited)
    write_budget: Option<u64>,
    /// order of `list_dir` results: 0 sorted, 1 reversed, 2 rotated
    list_order: u8,
    /// contents this filesystem started with (crash images / snapshots); `image_at` replays the
    /// operation log on top of it
    base_files: BTreeMap<PathBuf, Vec<u8>>,
    base_dirs: BTreeSet<PathBuf>,
}

#[derive(Clone)]
pub struct SimFs {
    inner: Arc<Mutex<Inner>>,
}

fn norm(p: &Path) -> PathBuf {
    let s = p.to_string_lossy();
    let t = s.trim_end_matches('/');
    PathBuf::from(if t.is_empty() { "/" } else { t })
}

fn injected() -> io::Error {
    io::Error::new(io::ErrorKind::Other, "simfs: injected fault")
}

impl Default for SimFs {
    fn default() -> Self {
        Self::new()
    }
}

impl SimFs {
    pub fn new() -> SimFs {
        let mut inner = Inner { recording: true, ..Default::default() };
        inner.dirs.insert(PathBuf::from("/"));
        SimFs { inner: Arc::new(Mutex::new(inner)) }
    }

    /// count a call; Err if the fault plan says it fails
    fn tick(&self, kind: &'static str, path: &Path) -> io::Result<()> {
        let mut g = self.inner.lock();
        let idx = g.calls;
        g.calls += 1;
        if g.record_calls {
            let p = path.to_string_lossy().to_string();
            g.call_kinds.push((kind, p));
        }
        if kind == "write" || kind == "append" {
            if let Some(b) = g.write_budget {
                if b == 0 {
                    g.faults_fired += 1;
                    return Err(injected());
                }
                g.write_budget = Some(b - 1);
            }
        }
        if let Some(f) = &g.fault {
            if idx == f.at || (f.sticky && idx > f.at) {
                g.faults_fired += 1;
                return Err(injected());
            }
        }
        Ok(())
    }

    pub fn set_fault(&self, plan: Option<FaultPlan>) {
        let mut g = self.inner.lock();
        g.fault = plan;
    }
    pub fn set_list_order(&self, o: u8) {
        self.inner.lock().list_order = o;
    }
    pub fn set_write_budget(&self, b: Option<u64>) {
        self.inner.lock().write_budget = b;
    }
    pub fn faults_fired(&self) -> u64 {
        self.inner.lock().faults_fired
    }
    pub fn calls(&self) -> u64 {
        self.inner.lock().calls
    }
    pub fn reset_calls(&self) {
        let mut g = self.inner.lock();
        g.calls = 0;
        g.call_kinds.clear();
        g.faults_fired = 0;
    }
    pub fn record_calls(&self, on: bool) {
        self.inner.lock().record_calls = on;
    }
    pub fn call_kinds(&self) -> Vec<(&'static str, String)> {
        self.inner.lock().call_kinds.clone()
    }
    pub fn oplog_len(&self) -> usize {
        self.inner.lock().oplog.len()
    }
    pub fn oplog(&self) -> Vec<Op> {
        self.inner.lock().oplog.clone()
    }
    pub fn inode_path(&self, ino: u64) -> Option<PathBuf> {
        self.inner.lock().inode_paths.get(&ino).cloned()
    }

    /// Durable state after the first `n` logged operations; if `torn` is `Some(k)` and operation
    /// `n` is a write, its first `k` bytes are applied as well.
    pub fn image_at(&self, n: usize, torn: Option<usize>) -> SimFs {
        let ops = self.oplog();
        let img = SimFs::new();
        {
            let (base_files, base_dirs) = {
                let me = self.inner.lock();
                (me.base_files.clone(), me.base_dirs.clone())
            };
            let mut g = img.inner.lock();
            g.recording = false;
            let mut inodes: BTreeMap<u64, Inode> = BTreeMap::new();
            for d in base_dirs {
                g.dirs.insert(d);
            }
            for (k, (p, c)) in base_files.into_iter().enumerate() {
                let ino = u64::MAX - k as u64;
                g.files.insert(p, (ino, Arc::new(Mutex::new(c))));
            }
            let apply = |g: &mut Inner, inodes: &mut BTreeMap<u64, Inode>, op: &Op, cut: Option<usize>| match op {
                Op::Mkdir(p) => {
                    g.dirs.insert(p.clone());
                }
                Op::Create(p, ino, trunc) => {
                    if let Some((_, node)) = g.files.get(p) {
                        // existing file re-opened: the new inode id aliases the old content
                        let node = node.clone();
                        if *trunc {
                            node.lock().clear();
                        }
                        inodes.insert(*ino, node.clone());
                        let old = g.files.get(p).unwrap().0;
                        let _ = old;
                        g.files.insert(p.clone(), (*ino, node));
                    } else {
                        let node: Inode = Arc::new(Mutex::new(vec![]));
                        inodes.insert(*ino, node.clone());
                        g.files.insert(p.clone(), (*ino, node));
                    }
                }
                Op::Write(ino, off, data) => {
                    if let Some(node) = inodes.get(ino) {
                        let d: &[u8] = match cut {
                            Some(k) => &data[..k.min(data.len())],
                            None => &data[..],
                        };
                        let mut v = node.lock();
                        match off {
                            None => v.extend_from_slice(d),
                            Some(o) => {
                                if v.len() < *o {
                                    v.resize(*o, 0);
                                }
                                let end = o + d.len();
                                if v.len() < end {
                                    v.resize(end, 0);
                                }
                                v[*o..end].copy_from_slice(d);
                            }
                        }
                    }
                }
                Op::Rename(a, b) => {
                    if let Some(x) = g.files.remove(a) {
                        g.files.insert(b.clone(), x);
                    }
                }
                Op::Remove(p) => {
                    g.files.remove(p);
                }
                Op::RemoveDir(p, all) => {
                    g.dirs.remove(p);
                    if *all {
                        let pre = p.clone();
                        let ks: Vec<PathBuf> = g.files.keys().filter(|k| k.starts_with(&pre)).cloned().collect();
                        for k in ks {
                            g.files.remove(&k);
                        }
                        let ds: Vec<PathBuf> = g.dirs.iter().filter(|k| k.starts_with(&pre)).cloned().collect();
                        for k in ds {
                            g.dirs.remove(&k);
                        }
                    }
                }
            };
            for op in ops.iter().take(n) {
                apply(&mut g, &mut inodes, op, None);
            }
            if let (Some(k), Some(op)) = (torn, ops.get(n)) {
                if let Op::Write(_, _, _) = op {
                    apply(&mut g, &mut inodes, op, Some(k));
                }
            }
            // detach: deep-copy contents so that the image shares nothing with the recording fs
            let files: Vec<(PathBuf, Vec<u8>)> = g.files.iter().map(|(p, (_, n))| (p.clone(), n.lock().clone())).collect();
            g.files.clear();
            for (i, (p, c)) in files.into_iter().enumerate() {
                g.files.insert(p.clone(), (i as u64, Arc::new(Mutex::new(c))));
                g.inode_paths.insert(i as u64, p);
            }
            g.next_inode = g.files.len() as u64;
            g.base_files = g.files.iter().map(|(p, (_, n))| (p.clone(), n.lock().clone())).collect();
            g.base_dirs = g.dirs.clone();
            g.recording = true;
        }
        img
    }

    /// deep copy of the current state (fresh op log)
    pub fn snapshot(&self) -> SimFs {
        let n = self.oplog_len();
        let g = self.inner.lock();
        let img = SimFs::new();
        {
            let mut h = img.inner.lock();
            h.dirs = g.dirs.clone();
            for (i, (p, (_, node))) in g.files.iter().enumerate() {
                h.files.insert(p.clone(), (i as u64, Arc::new(Mutex::new(node.lock().clone()))));
                h.inode_paths.insert(i as u64, p.clone());
            }
            h.next_inode = h.files.len() as u64;
            h.base_files = h.files.iter().map(|(p, (_, n))| (p.clone(), n.lock().clone())).collect();
            h.base_dirs = h.dirs.clone();
        }
        let _ = n;
        img
    }

    pub fn read_file(&self, p: &Path) -> Option<Vec<u8>> {
        self.inner.lock().files.get(&norm(p)).map(|(_, n)| n.lock().clone())
    }
    pub fn write_file_raw(&self, p: &Path, data: Vec<u8>) {
        let mut g = self.inner.lock();
        let p = norm(p);
        if let Some((_, n)) = g.files.get(&p) {
            *n.lock() = data;
        } else {
            let ino = g.next_inode;
            g.next_inode += 1;
            g.inode_paths.insert(ino, p.clone());
            g.files.insert(p, (ino, Arc::new(Mutex::new(data))));
        }
    }
    pub fn all_files(&self) -> Vec<(PathBuf, usize)> {
        self.inner.lock().files.iter().map(|(p, (_, n))| (p.clone(), n.lock().len())).collect()
    }
    pub fn dyn_fs(&self) -> Arc<dyn FileSystem> {
        Arc::new(self.clone())
    }
    fn log(&self, g: &mut Inner, op: Op) {
        let _ = self;
        if g.recording {
            g.oplog.push(op);
        }
    }
}

struct Handle {
    fs: SimFs,
    ino: u64,
    node: Inode,
    cursor: usize,
    append: bool,
    path: PathBuf,
}

impl Read for Handle {
    fn read(&mut self, buf: &mut [u8]) -> io::Result<usize> {
        self.fs.tick("read", &self.path)?;
        let v = self.node.lock();
        if self.cursor >= v.len() {
            return Ok(0);
        }
        let n = buf.len().min(v.len() - self.cursor);
        buf[..n].copy_from_slice(&v[self.cursor..self.cursor + n]);
        self.cursor += n;
        Ok(n)
    }
}

impl Seek for Handle {
    fn seek(&mut self, pos: SeekFrom) -> io::Result<u64> {
        let len = self.node.lock().len() as i64;
        let new = match pos {
            SeekFrom::Start(o) => o as i64,
            SeekFrom::End(o) => len + o,
            SeekFrom::Current(o) => self.cursor as i64 + o,
        };
        if new < 0 {
            return Err(io::Error::new(io::ErrorKind::InvalidInput, "negative seek"));
        }
        self.cursor = new as usize;
        Ok(new as u64)
    }
}

impl Write for Handle {
    fn write(&mut self, buf: &[u8]) -> io::Result<usize> {
        if let Err(e) = self.fs.tick("write", &self.path) {
            let partial = self.fs.inner.lock().fault.as_ref().map_or(false, |f| f.partial);
            if partial && buf.len() >= 2 {
                let half = buf.len() / 2;
                let _ = self.write_unchecked(&buf[..half]);
            }
            return Err(e);
        }
        self.write_unchecked(buf)
    }
    fn flush(&mut self) -> io::Result<()> {
        Ok(())
    }
}

impl Handle {
    fn write_unchecked(&mut self, buf: &[u8]) -> io::Result<usize> {
        let mut g = self.fs.inner.lock();
        let mut v = self.node.lock();
        if self.append {
            v.extend_from_slice(buf);
            self.cursor = v.len();
            drop(v);
            let op = Op::Write(self.ino, None, buf.to_vec());
            self.fs.log(&mut g, op);
        } else {
            let o = self.cursor;
            if v.len() < o {
                v.resize(o, 0);
            }
            let end = o + buf.len();
            if v.len() < end {
                v.resize(end, 0);
            }
            v[o..end].copy_from_slice(buf);
            self.cursor = end;
            drop(v);
            let op = Op::Write(self.ino, Some(o), buf.to_vec());
            self.fs.log(&mut g, op);
        }
        Ok(buf.len())
    }
}

impl ReadonlyRandomAccessFile for Handle {
    fn read_from(&self, buf: &mut [u8], offset: usize) -> io::Result<usize> {
        self.fs.tick("read_from", &self.path)?;
        let v = self.node.lock();
        if offset >= v.len() {
            return Ok(0);
        }
        let n = buf.len().min(v.len() - offset);
        buf[..n].copy_from_slice(&v[offset..offset + n]);
        Ok(n)
    }
    fn len(&self) -> io::Result<u64> {
        self.fs.tick("len", &self.path)?;
        Ok(self.node.lock().len() as u64)
    }
}

impl RandomAccessFile for Handle {
    fn append(&mut self, buf: &[u8]) -> io::Result<usize> {
        self.fs.tick("append", &self.path)?;
        let mut g = self.fs.inner.lock();
        let mut v = self.node.lock();
        v.extend_from_slice(buf);
        self.cursor = v.len();
        drop(v);
        let op = Op::Write(self.ino, None, buf.to_vec());
        self.fs.log(&mut g, op);
        Ok(buf.len())
    }
}

struct LockHandle {
    fs: SimFs,
    path: PathBuf,
}
impl UnlockableFile for LockHandle {
    fn unlock(&self) -> io::Result<()> {
        self.fs.inner.lock().locks.remove(&self.path);
        Ok(())
    }
}

impl FileSystem for SimFs {
    fn get_name(&self) -> String {
        "SimFs".to_string()
    }
    fn create_dir(&self, path: &Path) -> io::Result<()> {
        self.tick("create_dir", path)?;
        let p = norm(path);
        let mut g = self.inner.lock();
        if g.dirs.contains(&p) {
            return Err(io::Error::new(io::ErrorKind::AlreadyExists, "dir exists"));
        }
        g.dirs.insert(p.clone());
        self.log(&mut g, Op::Mkdir(p));
        Ok(())
    }
    fn create_dir_all(&self, path: &Path) -> io::Result<()> {
        self.tick("create_dir_all", path)?;
        let p = norm(path);
        let mut g = self.inner.lock();
        let mut cur = PathBuf::new();
        for comp in p.components() {
            cur.push(comp);
            if !g.dirs.contains(&cur) {
                g.dirs.insert(cur.clone());
                let c = cur.clone();
                self.log(&mut g, Op::Mkdir(c));
            }
        }
        Ok(())
    }
    fn list_dir(&self, path: &Path) -> io::Result<Vec<PathBuf>> {
        self.tick("list_dir", path)?;
        let p = norm(path);
        let g = self.inner.lock();
        if !g.dirs.contains(&p) {
            return Err(io::Error::new(io::ErrorKind::NotFound, "no such directory"));
        }
        let mut out: Vec<PathBuf> = vec![];
        for k in g.files.keys() {
            if k.parent() == Some(p.as_path()) {
                out.push(k.clone());
            }
        }
        for k in g.dirs.iter() {
            if k.parent() == Some(p.as_path()) && k != &p {
                out.push(k.clone());
            }
        }
        out.sort();
        // the trait promises no order: optionally hand the entries back in another (deterministic) order
        match g.list_order {
            1 => out.reverse(),
            2 => {
                let n = out.len();
                if n > 1 {
                    out.rotate_left(n / 2);
                }
            }
            _ => {}
        }
        Ok(out)
    }
    fn open_file(&self, path: &Path) -> io::Result<Box<dyn ReadonlyRandomAccessFile>> {
        self.tick("open_file", path)?;
        let p = norm(path);
        let g = self.inner.lock();
        match g.files.get(&p) {
            None => Err(io::Error::new(io::ErrorKind::NotFound, format!("simfs: no such file {p:?}"))),
            Some((ino, node)) => Ok(Box::new(Handle {
                fs: self.clone(),
                ino: *ino,
                node: node.clone(),
                cursor: 0,
                append: false,
                path: p.clone(),
            })),
        }
    }
    fn rename(&self, from: &Path, to: &Path) -> io::Result<()> {
        self.tick("rename", from)?;
        let (a, b) = (norm(from), norm(to));
        let mut g = self.inner.lock();
        match g.files.remove(&a) {
            None => Err(io::Error::new(io::ErrorKind::NotFound, "rename: no such file")),
            Some(x) => {
                g.inode_paths.insert(x.0, b.clone());
                g.files.insert(b.clone(), x);
                self.log(&mut g, Op::Rename(a, b));
                Ok(())
            }
        }
    }
    fn create_file(&self, path: &Path, append: bool) -> io::Result<Box<dyn RandomAccessFile>> {
        self.tick("create_file", path)?;
        let p = norm(path);
        let mut g = self.inner.lock();
        if let Some(parent) = p.parent() {
            if !parent.as_os_str().is_empty() && !g.dirs.contains(parent) {
                return Err(io::Error::new(io::ErrorKind::NotFound, format!("simfs: no parent dir for {p:?}")));
            }
        }
        let ino = g.next_inode;
        g.next_inode += 1;
        let node = match g.files.get(&p) {
            Some((_, node)) => {
                let node = node.clone();
                if !append {
                    node.lock().clear();
                }
                node
            }
            None => Arc::new(Mutex::new(vec![])),
        };
        g.files.insert(p.clone(), (ino, node.clone()));
        g.inode_paths.insert(ino, p.clone());
        self.log(&mut g, Op::Create(p.clone(), ino, !append));
        Ok(Box::new(Handle { fs: self.clone(), ino, node, cursor: 0, append, path: p }))
    }
    fn remove_file(&self, path: &Path) -> io::Result<()> {
        self.tick("remove_file", path)?;
        let p = norm(path);
        let mut g = self.inner.lock();
        match g.files.remove(&p) {
            None => Err(io::Error::new(io::ErrorKind::NotFound, "remove: no such file")),
            Some(_) => {
                self.log(&mut g, Op::Remove(p));
                Ok(())
            }
        }
    }
    fn remove_dir(&self, path: &Path) -> io::Result<()> {
        self.tick("remove_dir", path)?;
        let p = norm(path);
        let mut g = self.inner.lock();
        if !g.dirs.contains(&p) {
            return Err(io::Error::new(io::ErrorKind::NotFound, "no such dir"));
        }
        let nonempty = g.files.keys().any(|k| k.parent() == Some(p.as_path()))
            || g.dirs.iter().any(|k| k.parent() == Some(p.as_path()) && k != &p);
        if nonempty {
            return Err(io::Error::new(io::ErrorKind::Other, "directory not empty"));
        }
        g.dirs.remove(&p);
        self.log(&mut g, Op::RemoveDir(p, false));
        Ok(())
    }
    fn remove_dir_all(&self, path: &Path) -> io::Result<()> {
        self.tick("remove_dir_all", path)?;
        let p = norm(path);
        let mut g = self.inner.lock();
        if !g.dirs.contains(&p) {
            return Err(io::Error::new(io::ErrorKind::NotFound, "no such dir"));
        }
        let ks: Vec<PathBuf> = g.files.keys().filter(|k| k.starts_with(&p)).cloned().collect();
        for k in ks {
            g.files.remove(&k);
        }
        let ds: Vec<PathBuf> = g.dirs.iter().filter(|k| k.starts_with(&p)).cloned().collect();
        for k in ds {
            g.dirs.remove(&k);
        }
        self.log(&mut g, Op::RemoveDir(p, true));
        Ok(())
    }
    fn get_file_size(&self, path: &Path) -> io::Result<u64> {
        self.tick("get_file_size", path)?;
        let p = norm(path);
        let g = self.inner.lock();
        match g.files.get(&p) {
            None => Err(io::Error::new(io::ErrorKind::NotFound, "size: no such file")),
            Some((_, n)) => Ok(n.lock().len() as u64),
        }
    }
    fn is_dir(&self, path: &Path) -> io::Result<bool> {
        self.tick("is_dir", path)?;
        let p = norm(path);
        let g = self.inner.lock();
        if g.dirs.contains(&p) {
            Ok(true)
        } else if g.files.contains_key(&p) {
            Ok(false)
        } else {
            Err(io::Error::new(io::ErrorKind::NotFound, "no such path"))
        }
    }
    fn lock_file(&self, path: &Path) -> io::Result<FileLock> {
        self.tick("lock_file", path)?;
        let p = norm(path);
        let mut g = self.inner.lock();
        if g.locks.contains(&p) {
            return Err(io::Error::new(io::ErrorKind::WouldBlock, "simfs: lock held"));
        }
        // like the disk implementation: create + truncate the lock file
        if !g.files.contains_key(&p) {
            let ino = g.next_inode;
            g.next_inode += 1;
            g.files.insert(p.clone(), (ino, Arc::new(Mutex::new(vec![]))));
            g.inode_paths.insert(ino, p.clone());
            self.log(&mut g, Op::Create(p.clone(), ino, true));
        }
        g.locks.insert(p.clone());
        Ok(FileLock::new(Box::new(LockHandle { fs: self.clone(), path: p })))
    }
}
