//! C08 — I/O failures are reported, never swallowed; nothing acknowledged is lost.
//!
//! A history is first run fault-free on SimFs to count its filesystem calls. Then, for every
//! (sampled: every, for short streams) call position and both modes (that call only / that call and
//! all later ones), the history is re-run with the fault armed. Every API result is recorded:
//! * a write that returned Ok must be visible to every later read that succeeds;
//! * a write that returned Err may or may not have been applied;
//! * a read may fail, but a successful read must return a possible value.
//! Finally the fault is disarmed, the database closed and reopened: every Ok write must be there,
//! every Err batch entirely or not at all.

use std::collections::BTreeMap;

use raindb::{Batch, ReadOptions, WriteOptions, DB};

use crate::dbsim::{gen_key, gen_val, scan_db, Cfg, History, Op};
use crate::drv::hex;
use crate::prng::Prng;
use crate::report::Report;
use crate::shard::{note_progress, ShardArgs};
use crate::simfs::{FaultPlan, SimFs};

type Val = Option<Vec<u8>>;

/// possible values per key (None = absent)
#[derive(Clone, Default)]
struct Possible {
    m: BTreeMap<Vec<u8>, Vec<Val>>,
}

impl Possible {
    fn get(&self, k: &[u8]) -> Vec<Val> {
        self.m.get(k).cloned().unwrap_or_else(|| vec![None])
    }
    fn set_certain(&mut self, k: &[u8], v: Val) {
        self.m.insert(k.to_vec(), vec![v]);
    }
    fn add_maybe(&mut self, k: &[u8], v: Val) {
        let mut cur = self.get(k);
        if !cur.contains(&v) {
            cur.push(v);
        }
        self.m.insert(k.to_vec(), cur);
    }
}

struct FaultRun {
    sig: Option<(String, String)>,
    calls: u64,
    fired: u64,
    ok_writes: u64,
    err_writes: u64,
    err_reads: u64,
    open_failed: bool,
    monitored_ops: u64,
    hit: Option<(&'static str, String)>,
    kinds: Vec<(&'static str, String)>,
}

fn settle(db: &DB) {
    db.verif_wait_idle(std::time::Duration::from_secs(20));
}

fn run_with_fault(h: &History, plan: Option<FaultPlan>) -> FaultRun {
    run_with_fault_drv(h, plan, None)
}

fn run_with_fault_drv(h: &History, plan: Option<FaultPlan>, drv_path: Option<&str>) -> FaultRun {
    let mut out = FaultRun { sig: None, calls: 0, fired: 0, ok_writes: 0, err_writes: 0, err_reads: 0, open_failed: false, monitored_ops: 0, hit: None, kinds: vec![] };
    let fs = SimFs::new();
    let mut cfg = h.cfg.clone();
    fs.reset_calls();
    fs.record_calls(true);
    fs.set_fault(plan.clone());
    let mut poss = Possible::default();
    // batches that returned Err: (index in history, ops)
    let mut err_batches: Vec<(usize, Vec<(Vec<u8>, Val)>)> = vec![];
    let mut last_writer: BTreeMap<Vec<u8>, usize> = BTreeMap::new();
    let opened = std::panic::catch_unwind(std::panic::AssertUnwindSafe(|| DB::open(cfg.options(&fs))));
    let mut db: Option<DB> = match opened {
        Err(_) => {
            out.sig = Some(("c08:open-panics".into(), "DB::open panicked under an injected I/O fault".into()));
            return out;
        }
        Ok(Err(_)) => {
            out.open_failed = true;
            None
        }
        Ok(Ok(d)) => Some(d),
    };
    if let Some(d) = db.as_ref() {
        settle(d);
    }
    let trace = std::env::var("VERIF_TRACE").is_ok();
    // level of every table of the current version before the operation during which the fault fired
    let mut levels_now: BTreeMap<u64, usize> = BTreeMap::new();
    let mut fault_levels: Option<BTreeMap<u64, usize>> = None;
    for (i, op) in h.ops.iter().enumerate() {
        if out.sig.is_some() {
            break;
        }
        if fault_levels.is_none() && fs.faults_fired() > 0 {
            fault_levels = Some(levels_now.clone());
        }
        let Some(d) = db.as_ref() else { break };
        if fault_levels.is_none() {
            levels_now.clear();
            for (l, fsl) in d.verif_state().levels.iter().enumerate() {
                for f in fsl {
                    levels_now.insert(f.number, l);
                }
            }
        }
        if trace {
            eprintln!("op {i} {} calls={} fired={} ok={} err={}", op.to_tok().chars().take(60).collect::<String>(), fs.calls(), fs.faults_fired(), out.ok_writes, out.err_writes);
        }
        let mut batch: Option<Vec<(Vec<u8>, Val)>> = None;
        match op {
            Op::Put(k, v) => batch = Some(vec![(k.clone(), Some(v.clone()))]),
            Op::Del(k) => batch = Some(vec![(k.clone(), None)]),
            Op::Batch(es) => batch = Some(es.clone()),
            Op::Fill(s, n, l) => {
                for j in 0..*n {
                    let k = format!("fill-{:05}", s + j).into_bytes();
                    let v = vec![b'f'; *l as usize];
                    match d.put(WriteOptions::default(), k.clone(), v.clone()) {
                        Ok(()) => {
                            poss.set_certain(&k, Some(v));
                            out.ok_writes += 1;
                        }
                        Err(_) => {
                            poss.add_maybe(&k, Some(v));
                            out.err_writes += 1;
                        }
                    }
                    last_writer.insert(k, i);
                }
                settle(d);
            }
            Op::Get(k) => match d.get(ReadOptions::default(), k) {
                Ok(v) => {
                    if !poss.get(k).contains(&Some(v.clone())) {
                        out.sig = Some((
                            "c08:read-returns-impossible-value".into(),
                            format!("get({}) returned a value of {} bytes; possible values after the acknowledged writes: {}", hex(k), v.len(), show_poss(&poss.get(k))),
                        ));
                    }
                }
                Err(raindb::RainDBError::KeyNotFound) => {
                    if !poss.get(k).contains(&None) {
                        out.sig = Some((
                            "c08:acknowledged-write-not-visible".into(),
                            format!("get({}) returned KeyNotFound although a write of this key returned Ok (possible: {})", hex(k), show_poss(&poss.get(k))),
                        ));
                    }
                }
                Err(_) => out.err_reads += 1,
            },
            Op::Scan => { let fired_before = fs.faults_fired(); match scan_db(d, None) {
                Ok(got) => {
                    let swallowed = fs.faults_fired() > fired_before;
                    let gm: BTreeMap<Vec<u8>, Vec<u8>> = got.into_iter().collect();
                    for (k, vals) in poss.m.iter() {
                        let g = gm.get(k).cloned();
                        if !vals.contains(&g) {
                            out.sig = Some((
                                if swallowed { "c08:scan-silently-incomplete-after-read-error".into() } else if g.is_none() { "c08:scan-misses-acknowledged-write".into() } else { "c08:scan-returns-impossible-value".into() },
                                format!("a scan shows {} for key {}; possible: {}", g.as_ref().map_or("nothing".to_string(), |v| format!("{} bytes", v.len())), hex(k), show_poss(vals)),
                            ));
                            break;
                        }
                    }
                    for k in gm.keys() {
                        if !poss.m.contains_key(k) {
                            out.sig = Some(("c08:read-returns-impossible-value".into(), format!("a scan shows key {} which was never written", hex(k))));
                        }
                    }
                }
                Err(_) => out.err_reads += 1,
            } },
            Op::Compact(a, b) => {
                d.compact_range(a.as_deref()..b.as_deref());
                settle(d);
            }
            Op::Idle => settle(d),
            Op::Reopen(c) => {
                settle(d);
                let old = db.take().unwrap();
                if std::panic::catch_unwind(std::panic::AssertUnwindSafe(move || drop(old))).is_err() {
                    out.sig = Some(("c08:close-panics".into(), "closing the database panicked under an injected I/O fault".into()));
                    break;
                }
                cfg = c.clone();
                match std::panic::catch_unwind(std::panic::AssertUnwindSafe(|| DB::open(cfg.options(&fs)))) {
                    Err(_) => {
                        out.sig = Some(("c08:open-panics".into(), "DB::open panicked under an injected I/O fault".into()));
                    }
                    Ok(Err(_)) => {
                        out.open_failed = true;
                    }
                    Ok(Ok(nd)) => {
                        settle(&nd);
                        db = Some(nd);
                    }
                }
            }
            _ => {}
        }
        if let (Some(b), Some(d)) = (&batch, db.as_ref()) {
            let mut wb = Batch::new();
            for (k, v) in b {
                match v {
                    Some(v) => {
                        wb.add_put(k.clone(), v.clone());
                    }
                    None => {
                        wb.add_delete(k.clone());
                    }
                }
            }
            match d.apply(WriteOptions::default(), wb) {
                Ok(()) => {
                    for (k, v) in b {
                        poss.set_certain(k, v.clone());
                    }
                    out.ok_writes += 1;
                }
                Err(_) => {
                    // keys whose state before this batch is known for certain and differs from what
                    // the batch would leave: only those can tell "applied" from "not applied"
                    let mut fin: BTreeMap<Vec<u8>, Val> = BTreeMap::new();
                    for (k, v) in b {
                        fin.insert(k.clone(), v.clone());
                    }
                    let informative: Vec<(Vec<u8>, Val)> = fin
                        .iter()
                        .filter(|(k, v)| {
                            let before = poss.get(k);
                            before.len() == 1 && &before[0] != *v
                        })
                        .map(|(k, v)| (k.clone(), v.clone()))
                        .collect();
                    for (k, v) in b {
                        poss.add_maybe(k, v.clone());
                    }
                    err_batches.push((i, informative));
                    out.err_writes += 1;
                }
            }
            for (k, _) in b {
                last_writer.insert(k.clone(), i);
            }
            settle(d);
        }
    }
    out.calls = fs.calls();
    out.fired = fs.faults_fired();
    // which call did the fault hit?
    let hit: Option<(&'static str, String)> = plan.as_ref().and_then(|p| fs.call_kinds().get(p.at as usize).cloned());
    // The recorded finding is about the table ITERATORS: TwoLevelIterator swallows block read errors
    // (tables of any level) and FilesEntryIterator swallows failures to open the next table of a
    // level >= 1. A failure to open a level-0 input is reported by the unchanged code
    // (CompactionManifest::make_merging_iterator returns it), so it is not part of the finding.
    out.hit = hit.clone();
    out.kinds = fs.call_kinds();
    let fault_levels = fault_levels.unwrap_or(levels_now);
    let hit_level: Option<usize> = hit.as_ref().and_then(|(_, path)| {
        let name = path.rsplit('/').next().unwrap_or("");
        name.strip_suffix(".rdb").and_then(|n| n.parse::<u64>().ok()).and_then(|n| fault_levels.get(&n).copied())
    });
    let table_read_fault = matches!(&hit, Some((k, path)) if path.ends_with(".rdb")
        && ((*k == "read_from" || *k == "read") || ((*k == "open_file" || *k == "len") && hit_level.map_or(false, |l| l >= 1))));
    let reclass = |sig: &mut Option<(String, String)>| {
        if let Some((s, w)) = sig {
            if table_read_fault && plan.as_ref().map_or(false, |p| !p.sticky)
                && (s == "c08:scan-misses-acknowledged-write" || s == "c08:acknowledged-write-not-visible" || s == "c08:acknowledged-write-lost-after-reopen" || s == "c08:scan-returns-impossible-value" || s == "c08:read-returns-impossible-value" || s == "c08:impossible-value-after-reopen"
                    // the same defect seen by the durability monitor: the compaction's manifest edit changes the recovered contents
                    || (s == "c08:operation-order-outside-the-verified-discipline-under-fault" && w.contains(" appendManifest ") && w.contains("deleted=[(")))
            {
                *s = "c08:table-read-error-swallowed-by-iterator-loses-data".into();
                *w = format!("{w} — the injected failure hit a {} of {}: the table iterator logged it and ended early, the compaction consuming it wrote an incomplete output and deleted its inputs", hit.as_ref().unwrap().0, hit.as_ref().unwrap().1);
            }
        }
    };
    reclass(&mut out.sig);
    // the fault goes away; close, reopen, everything acknowledged must be there
    fs.set_fault(None);
    if let Some(old) = db.take() {
        if std::panic::catch_unwind(std::panic::AssertUnwindSafe(move || drop(old))).is_err() && out.sig.is_none() {
            out.sig = Some(("c08:close-panics".into(), "closing the database after an injected I/O fault panicked".into()));
        }
    }
    if out.sig.is_some() {
        return out;
    }
    match std::panic::catch_unwind(std::panic::AssertUnwindSafe(|| DB::open(cfg.options(&fs)))) {
        Err(_) => out.sig = Some(("c08:reopen-after-fault-panics".into(), "reopening after the fault was removed panicked".into())),
        Ok(Err(e)) => {
            // if nothing was ever acknowledged and the very first open failed half-way the
            // directory may be unusable; that is still a loss of nothing
            if out.ok_writes > 0 || !out.open_failed {
                // the history of the manifest and CURRENT (the run depends on background timing and may
                // not replay: keep the evidence with the report)
                let ops = fs.oplog();
                let mut lines: Vec<String> = ops.iter().enumerate().map(|(i, op)| (i, crate::crash::op_desc_pub(&fs, op))).filter(|(_, d)| d.contains("MANIFEST") || d.contains("CURRENT") || d.contains(".dbtemp")).map(|(i, d)| format!("#{i} {d}")).collect();
                let n = lines.len();
                if n > 14 {
                    lines = lines.split_off(n - 14);
                }
                if let Ok(dir) = std::env::var("VERIF_DUMP_DIR") {
                    let all: Vec<String> = ops.iter().enumerate().map(|(i, op)| format!("#{i} {}", crate::crash::op_desc_pub(&fs, op))).collect();
                    let calls: Vec<String> = fs.call_kinds().iter().enumerate().map(|(i, (k, p))| format!("{i} {k} {p}")).collect();
                    let _ = std::fs::write(format!("{dir}/oplog_{}.txt", std::process::id()), all.join("\n") + "\n--- calls\n" + &calls.join("\n"));
                }
                let hit = plan.as_ref().and_then(|p| fs.call_kinds().get(p.at as usize).cloned());
                out.sig = Some(("c08:reopen-after-fault-fails".into(), format!("after the fault was removed the database does not open: {e} [the failing call was {:?}; {} writes returned Ok, {} returned an error, a DB::open failed under the fault: {}; last manifest operations: {}]", hit, out.ok_writes, out.err_writes, out.open_failed, lines.join("; "))));
            }
        }
        Ok(Ok(d2)) => {
            settle(&d2);
            match scan_db(&d2, None) {
                Err(e) => out.sig = Some(("c08:reopen-after-fault-unreadable".into(), format!("scan after reopen failed: {e}"))),
                Ok(got) => {
                    let gm: BTreeMap<Vec<u8>, Vec<u8>> = got.into_iter().collect();
                    if trace {
                        for (k, v) in &gm {
                            eprintln!("after reopen: {} = {}B {}", hex(k), v.len(), hex(&v[..v.len().min(6)]));
                        }
                        for (k, v) in &poss.m {
                            eprintln!("possible: {} : {}", hex(k), show_poss(v));
                        }
                        for (p, l) in fs.all_files() {
                            eprintln!("file {} {}", p.to_string_lossy(), l);
                        }
                    }
                    for (k, vals) in poss.m.iter() {
                        let g = gm.get(k).cloned();
                        if !vals.contains(&g) {
                            out.sig = Some((
                                if vals.len() == 1 { "c08:acknowledged-write-lost-after-reopen".into() } else { "c08:impossible-value-after-reopen".into() },
                                format!("after reopen key {} shows {}; possible: {}", hex(k), g.as_ref().map_or("nothing".to_string(), |v| format!("{} bytes", v.len())), show_poss(vals)),
                            ));
                            break;
                        }
                    }
                    if out.sig.is_none() {
                        // all-or-nothing for failed batches whose keys nobody wrote afterwards
                        for (i, b) in &err_batches {
                            if b.len() < 2 || b.iter().any(|(k, _)| last_writer.get(k) != Some(i)) {
                                continue;
                            }
                            let a: Vec<bool> = b.iter().map(|(k, v)| &gm.get(k).cloned() == v).collect();
                            if a.iter().any(|x| *x) && a.iter().any(|x| !*x) {
                                out.sig = Some(("c08:failed-batch-partially-applied".into(), format!("the batch of operation {i} returned an error and is present only in part after reopen")));
                            }
                        }
                    }
                }
            }
            let _ = std::panic::catch_unwind(std::panic::AssertUnwindSafe(move || drop(d2)));
        }
    }
    reclass(&mut out.sig);
    // the stream of COMPLETED operations (failed calls are simply absent) against the durability
    // monitor: the ordering discipline must hold under faults too
    if let (Some(p), None) = (drv_path, out.sig.as_ref()) {
        let mut drv = crate::drv::Drv::spawn(p);
        let (n, bad) = crate::crash::monitor(&fs, &mut drv);
        out.monitored_ops = n as u64;
        if let Some(what) = bad {
            let removal = what.contains(" removeWal ") || what.contains(" removeTable ") || what.contains(" removeManifest ");
            out.sig = Some((if removal { "c11:file-needed-by-recovery-removed".into() } else { "c08:operation-order-outside-the-verified-discipline-under-fault".into() }, what));
            reclass(&mut out.sig);
        }
    }
    out
}

fn show_poss(v: &[Val]) -> String {
    v.iter().map(|x| x.as_ref().map_or("absent".to_string(), |b| format!("{}B:{}", b.len(), hex(&b[..b.len().min(6)])))).collect::<Vec<_>>().join(" | ")
}

/// sessions that each leave a level-0 table behind (recovery of a non-reused log), so that after
/// the last reopen the table cache is cold; then reads / compactions open those tables
fn gen_cold_tables(rng: &mut Prng) -> History {
    let mut cfg = Cfg::gen(rng);
    cfg.memtable = *rng.pick(&[512usize, 1024, 4096]);
    cfg.reuse = false;
    let space = *rng.pick(&[6u64, 12]);
    let mut ops = vec![];
    let sessions = rng.range(2, 4);
    for _ in 0..sessions {
        for _ in 0..rng.range(2, 5) {
            ops.push(match rng.below(4) {
                0 => Op::Del(gen_key(rng, space)),
                1 => Op::Batch((0..rng.range(2, 4)).map(|_| (gen_key(rng, space), Some(gen_val(rng, false)))).collect()),
                _ => Op::Put(gen_key(rng, space), gen_val(rng, false)),
            });
        }
        ops.push(Op::Reopen(Cfg { reuse: false, ..cfg.clone() }));
    }
    for _ in 0..rng.range(1, 4) {
        ops.push(match rng.below(6) {
            0 => Op::Get(gen_key(rng, space)),
            1 => Op::Scan,
            2 => Op::Put(gen_key(rng, space), gen_val(rng, false)),
            3 => Op::Fill(rng.below(10) as u32, rng.range(3, 10) as u32, 300),
            _ => Op::Compact(None, None),
        });
    }
    ops.push(Op::Compact(None, None));
    ops.push(Op::Scan);
    History { cfg, ops }
}

fn gen_history(rng: &mut Prng) -> History {
    if rng.chance(1, 4) {
        return gen_cold_tables(rng);
    }
    let mut cfg = Cfg::gen(rng);
    cfg.memtable = *rng.pick(&[256usize, 512, 1024]);
    let nops = rng.range(6, 24) as usize;
    let space = *rng.pick(&[6u64, 12]);
    let mut ops = vec![];
    for _ in 0..nops {
        let r = rng.below(100);
        ops.push(if r < 32 {
            Op::Put(gen_key(rng, space), gen_val(rng, false))
        } else if r < 42 {
            Op::Del(gen_key(rng, space))
        } else if r < 52 {
            let n = rng.range(2, 4);
            { let _ = n; Op::Batch(crate::dbsim::gen_batch_ops(rng, space, 2, 5)) }
        } else if r < 62 {
            Op::Fill(rng.below(10) as u32, rng.range(3, 10) as u32, *rng.pick(&[40u32, 120, 300]))
        } else if r < 78 {
            Op::Get(gen_key(rng, space))
        } else if r < 84 {
            Op::Scan
        } else if r < 90 {
            Op::Compact(None, None)
        } else if r < 96 {
            Op::Reopen(Cfg { reuse: rng.chance(1, 2), ..cfg.clone() })
        } else {
            Op::Idle
        });
    }
    ops.push(Op::Scan);
    History { cfg, ops }
}

/// Log level: a log file is re-opened for appending (what recovery does with `reuse_log_files`) while
/// one filesystem call of that session fails. If the writer is handed out and its appends return Ok,
/// the records must be readable afterwards, behind the records of the first session.
fn log_reopen_under_fault(seed: u64, rep: &mut Report) {
    let mut rng = Prng::new(seed);
    let fs = SimFs::new();
    let path = std::path::Path::new("/wal-1.log");
    let first: Vec<Vec<u8>> = (0..rng.range(1, 4)).map(|i| vec![b'a' + i as u8; rng.range(1, 30_000) as usize]).collect();
    let second: Vec<Vec<u8>> = (0..rng.range(2, 40)).map(|i| vec![b'A' + (i % 26) as u8; *rng.pick(&[10usize, 1000, 1057, 5000, 20_000, 40_000])]).collect();
    if raindb::verif::log_write(fs.dyn_fs(), path, false, &first).map_or(true, |r| r.iter().any(|x| x.is_err())) {
        return;
    }
    let base = fs.snapshot();
    // call 0 = create/open for append, call 1 = size of the existing file, then writes and flushes
    for at in 0..rng.range(2, 7) {
        let fs = base.snapshot();
        fs.reset_calls();
        fs.record_calls(true);
        fs.set_fault(Some(FaultPlan { at, sticky: false, partial: false }));
        let line = format!("c08log seed={seed} at={at}");
        let res = raindb::verif::log_write(fs.dyn_fs(), path, true, &second);
        let fired = fs.faults_fired() > 0;
        let hit = fs.call_kinds().get(at as usize).cloned();
        fs.set_fault(None);
        rep.case(&line, fired);
        rep.count("c08.log-reopen-under-fault");
        let acked: Vec<Vec<u8>> = match &res {
            Err(_) => vec![],
            Ok(rs) => second.iter().zip(rs.iter()).take_while(|(_, r)| r.is_ok()).map(|(d, _)| d.clone()).collect(),
        };
        let all_ok = matches!(&res, Ok(rs) if rs.len() == second.len() && rs.iter().all(|r| r.is_ok()));
        let Ok((got, _err)) = raindb::verif::log_read_all(fs.dyn_fs(), path) else { continue };
        let mut want = first.clone();
        want.extend(acked.iter().cloned());
        let ok = got.len() >= want.len() && got[..want.len()] == want[..] && got[want.len()..].iter().all(|r| second.contains(r));
        if !ok {
            let sig = if fired && all_ok { "c08:log-writer-swallows-io-error-and-loses-records" } else { "c08:acknowledged-log-record-lost-after-io-error" };
            rep.fail("oracle", sig, &format!("a log of {} records was re-opened for appending while call {at} of the session ({:?}) failed; {} appends returned Ok{}; reading the file back gives {} records of lengths {:?}, expected the {} first-session records followed by the {} acknowledged ones (lengths {:?})", first.len(), hit, acked.len(), if all_ok { " (every call of the session reported success: the failure was swallowed)" } else { "" }, got.len(), got.iter().map(|r| r.len()).collect::<Vec<_>>(), first.len(), acked.len(), want.iter().map(|r| r.len()).collect::<Vec<_>>()), &line);
            return;
        }
    }
}

/// Directed, replayable fault positions: a small database, one client thread that waits for the
/// background thread after every call, and a single fault (transient / sticky / transient short
/// write) at the k-th filesystem call AFTER a fixed prefix of the history; then close, fault removed,
/// reopen, compare. Because only one thread is active at a time the call positions are reproducible.
fn directed(seed: u64, rep: &mut Report) {
    let mut rng = Prng::new(seed);
    let reuse = rng.chance(1, 2);
    let cfg = Cfg { memtable: *rng.pick(&[256usize, 1024]), file: 1536, block: 256, reuse, bloom_bits: 10, share: false };
    let nkeys = rng.range(4, 14);
    let mode = rng.below(3);
    // fault-free run to count the calls of the tail (flush + compaction + reopen)
    let run = |plan: Option<FaultPlan>, k_base: &mut u64| -> (Option<(String, String)>, u64) {
        let fs = SimFs::new();
        let mut acked: BTreeMap<Vec<u8>, Vec<u8>> = BTreeMap::new();
        let mut maybe: Vec<(Vec<u8>, Vec<u8>)> = vec![];
        let Ok(db) = DB::open(cfg.options(&fs)) else { return (None, 0) };
        for i in 0..nkeys {
            let (k, v) = (format!("d{:03}", i).into_bytes(), vec![b'a' + (i % 26) as u8; 90]);
            if db.put(WriteOptions::default(), k.clone(), v.clone()).is_ok() {
                acked.insert(k, v);
            }
        }
        settle(&db);
        fs.reset_calls();
        *k_base = 0;
        fs.set_fault(plan.clone());
        // tail: more writes, a forced flush + compaction, a reopen, more writes
        let mut db = Some(db);
        for round in 0..2 {
            if let Some(d) = db.as_ref() {
                for i in 0..4u64 {
                    let (k, v) = (format!("t{round}{:02}", i).into_bytes(), vec![b'A' + (i % 26) as u8; 120]);
                    match d.put(WriteOptions::default(), k.clone(), v.clone()) {
                        Ok(()) => {
                            acked.insert(k, v);
                        }
                        Err(_) => maybe.push((k, v)),
                    }
                }
                d.compact_range(None..None);
                settle(d);
            }
            if let Some(old) = db.take() {
                if std::panic::catch_unwind(std::panic::AssertUnwindSafe(move || drop(old))).is_err() {
                    return (Some(("c08:close-panics".into(), "closing the database panicked under an injected I/O fault".into())), fs.calls());
                }
            }
            match std::panic::catch_unwind(std::panic::AssertUnwindSafe(|| DB::open(cfg.options(&fs)))) {
                Err(_) => return (Some(("c08:open-panics".into(), "DB::open panicked under an injected I/O fault".into())), fs.calls()),
                Ok(Err(_)) => {}
                Ok(Ok(d)) => {
                    settle(&d);
                    db = Some(d);
                }
            }
        }
        let calls = fs.calls();
        drop(db.take());
        fs.set_fault(None);
        let hit = plan.as_ref().and_then(|p| fs.call_kinds().get(p.at as usize).cloned());
        let history = || {
            let ops = fs.oplog();
            let mut lines: Vec<String> = ops.iter().enumerate().map(|(i, op)| (i, crate::crash::op_desc_pub(&fs, op))).filter(|(_, d)| d.contains("MANIFEST") || d.contains("CURRENT") || d.contains(".dbtemp")).map(|(i, d)| format!("#{i} {d}")).collect();
            let n = lines.len();
            if n > 12 {
                lines = lines.split_off(n - 12);
            }
            lines.join("; ")
        };
        match std::panic::catch_unwind(std::panic::AssertUnwindSafe(|| DB::open(cfg.options(&fs)))) {
            Err(_) => (Some(("c08:reopen-after-fault-panics".into(), "reopening after the fault was removed panicked".into())), calls),
            Ok(Err(e)) => (Some(("c08:reopen-after-fault-fails".into(), format!("after the fault was removed the database does not open: {e} [the failing call was {hit:?}; last manifest operations: {}]", history()))), calls),
            Ok(Ok(d2)) => {
                settle(&d2);
                let got: BTreeMap<Vec<u8>, Vec<u8>> = scan_db(&d2, None).unwrap_or_default().into_iter().collect();
                let mut sig = None;
                for (k, v) in &acked {
                    if got.get(k) != Some(v) && !maybe.iter().any(|(mk, _)| mk == k) {
                        sig = Some(("c08:acknowledged-write-lost-after-reopen".to_string(), format!("after reopen key {} is {}; its put returned Ok [the failing call was {hit:?}; last manifest operations: {}]", hex(k), if got.contains_key(k) { "different" } else { "missing" }, history())));
                        break;
                    }
                }
                let _ = std::panic::catch_unwind(std::panic::AssertUnwindSafe(move || drop(d2)));
                (sig, calls)
            }
        }
    };
    let mut base = 0u64;
    let (sig0, ncalls) = run(None, &mut base);
    if sig0.is_some() || ncalls == 0 {
        return;
    }
    for at in 0..ncalls {
        let (sticky, partial) = match mode {
            0 => (false, false),
            1 => (true, false),
            _ => (false, true),
        };
        let line = format!("c08directed seed={seed} at={at}");
        let (sig, _) = run(Some(FaultPlan { at, sticky, partial }), &mut base);
        rep.case(&line, true);
        rep.count(match mode { 0 => "c08.directed.transient", 1 => "c08.directed.sticky", _ => "c08.directed.transient-short-write" });
        if let Some((sig, what)) = sig {
            rep.fail("oracle", &sig, &format!("directed history, fault at filesystem call {at} of {ncalls} after the prefix ({}): {what}", match mode { 0 => "that call only", 1 => "and all later calls", _ => "that call only; a failing write first writes half of its buffer" }), &line);
            return;
        }
    }
}

pub fn rule() -> &'static str {
    "histories (puts, deletes, batches, fills forcing flushes, gets, scans, manual compactions, reopens) on SimFs with a single injected filesystem failure at call position n of the whole call stream (create, write/append, rename, remove, open-for-read, size, list, lock …), transient (that call) and sticky (that call and all later ones); every position for streams up to the budget, an even sample beyond; then the fault is removed and the database reopened; plus, at log level, a log file re-opened for appending while one call of that session fails (records acknowledged must be readable behind the first session's). Non-trivial = the fault fired and at least one write had been acknowledged before the end; distinct by (history, position, mode)."
}

pub fn run(tier: &str, seed: u64, replay: Option<&str>, corpus_dir: &str, shard: Option<ShardArgs>, drv_path: &str) -> Report {
    crate::lsm::install_panic_hook();
    let mut rep = Report::new("c08", rule());
    let thorough = tier == "thorough";
    if let Some(line) = replay {
        if line.starts_with("c08directed ") {
            let s = line.split_whitespace().find_map(|t| t.strip_prefix("seed=")).and_then(|s| s.parse().ok()).unwrap_or(0);
            directed(s, &mut rep);
            return rep;
        }
        if line.starts_with("c08log ") {
            let s = line.split_whitespace().find_map(|t| t.strip_prefix("seed=")).and_then(|s| s.parse().ok()).unwrap_or(0);
            log_reopen_under_fault(s, &mut rep);
            return rep;
        }
        let Some(h) = History::from_line(line) else {
            rep.fail("oracle", "c08:bad-replay", "cannot parse replay case", line);
            return rep;
        };
        let get = |name: &str| line.split_whitespace().find_map(|t| t.strip_prefix(&format!("{name}="))).map(|s| s.to_string());
        let at: u64 = get("at").and_then(|s| s.parse().ok()).unwrap_or(0);
        let sticky = get("sticky").map_or(false, |s| s == "1");
        let partial = get("partial").map_or(false, |s| s == "1");
        // the interleaving with the background thread can shift call positions by a few calls:
        // replay the recorded position and its neighbours
        // The position of a call in the stream depends on how the background thread interleaves with the
        // client: replay the recorded position and its neighbours, and, when the case names the call
        // that was hit (hit=<kind>:<path>), every position nearby at which this run makes that call.
        let want_hit = get("hit");
        let mut positions: Vec<i64> = vec![];
        if let Some(wh) = &want_hit {
            let probe = run_with_fault(&h, None);
            let mut cands: Vec<i64> = probe.kinds.iter().enumerate().filter(|(_, (k, p))| &format!("{k}:{p}") == wh).map(|(i, _)| i as i64).collect();
            cands.sort_by_key(|p| (p - at as i64).abs());
            positions.extend(cands.into_iter().take(12));
        }
        for d in [0i64, -1, 1, -2, 2] {
            if !positions.contains(&(at as i64 + d)) {
                positions.push(at as i64 + d);
            }
        }
        for pos in positions {
            if pos < 0 {
                continue;
            }
            let r = run_with_fault_drv(&h, Some(FaultPlan { at: pos as u64, sticky, partial }), if drv_path != "none" { Some(drv_path) } else { None });
            if std::env::var("VERIF_TRACE").is_ok() {
                eprintln!("fault at {pos} hit {:?}", r.hit);
            }
            rep.case(&format!("{} at={} sticky={} partial={}", h.to_line("c08"), pos, if sticky { 1 } else { 0 }, if partial { 1 } else { 0 }), r.fired > 0);
            if let Some((sig, what)) = r.sig {
                rep.fail("oracle", &sig, &what, line);
                break;
            }
        }
        return rep;
    }
    let mut rng = Prng::new(seed ^ 0xC08);
    let mut jobs: Vec<History> = crate::crash::corpus(corpus_dir, "c08");
    let n = if thorough { 300 } else { 40 };
    for _ in 0..n {
        jobs.push(gen_history(&mut rng));
    }
    let (idx, cnt) = shard.as_ref().map_or((0, 1), |s| (s.index, s.count));
    let shard_opt = shard;
    let ndir = if thorough { 160 } else { 16 };
    for i in 0..ndir {
        let s = rng.next() % 1_000_000_000;
        if i % cnt == idx {
            note_progress(&shard_opt, &format!("c08directed seed={s}"));
            directed(s, &mut rep);
        }
    }
    let nlog = if thorough { 4000 } else { 400 };
    for i in 0..nlog {
        let s = rng.next() % 1_000_000_000;
        if i % cnt == idx {
            log_reopen_under_fault(s, &mut rep);
        }
    }
    for (j, h) in jobs.iter().enumerate() {
        if j % cnt != idx {
            continue;
        }
        let hline = h.to_line("c08");
        note_progress(&shard_opt, &hline);
        let base = run_with_fault(h, None);
        if let Some((sig, what)) = base.sig {
            rep.notes.push(format!("history fails without any fault ({sig}: {what})"));
            continue;
        }
        let ncalls = base.calls;
        let budget: u64 = if thorough { 500 } else { 70 };
        let stride = (ncalls / budget).max(1);
        let mut prng = Prng::new(seed ^ ((j as u64) << 10));
        let off = prng.below(stride);
        let before = rep.failures.len();
        let mut pos = off;
        while pos < ncalls {
            // transient, sticky, and transient with a short write (the failing write call first writes
            // half of its buffer)
            for (sticky, partial) in [(false, false), (true, false), (false, true)] {
                let line = format!("{hline} at={pos} sticky={} partial={}", if sticky { 1 } else { 0 }, if partial { 1 } else { 0 });
                note_progress(&shard_opt, &line);
                let use_drv = if drv_path != "none" && (pos / stride) % 4 == 0 { Some(drv_path) } else { None };
                let r = run_with_fault_drv(h, Some(FaultPlan { at: pos, sticky, partial }), use_drv);
                rep.add("c08.completed-operations-checked-by-the-durability-monitor", r.monitored_ops);
                if r.monitored_ops > 0 {
                    rep.model_requests += 1;
                }
                rep.case(&line, r.fired > 0 && r.ok_writes > 0);
                rep.add("c08.ok-writes", r.ok_writes);
                rep.add("c08.err-writes", r.err_writes);
                rep.add("c08.err-reads", r.err_reads);
                if r.open_failed {
                    rep.count("c08.open-failed-under-fault");
                }
                rep.count(if sticky { "c08.mode.sticky" } else if partial { "c08.mode.transient-short-write" } else { "c08.mode.transient" });
                if let Some((sig, what)) = r.sig {
                    let line = match &r.hit {
                        Some((k, p)) => format!("{line} hit={k}:{p}"),
                        None => line.clone(),
                    };
                    rep.fail("oracle", &sig, &format!("fault at filesystem call {pos} of {ncalls} ({}): {what}", if sticky { "and all later calls" } else if partial { "that call only; a failing write first writes half of its buffer" } else { "that call only" }), &line);
                }
            }
            if rep.failures.len() > before + 6 {
                break;
            }
            pos += stride;
        }
    }
    rep
}
