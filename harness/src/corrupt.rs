//! C15 — corrupted files are detected, never served as data.
//!
//! Small database images are built on SimFs with a known structure: phase-1 batches, a full manual
//! compaction (so they live in table files), phase-2 batches that stay in the write-ahead log,
//! clean close. Then every offset (sampled for larger files) of every persistent file is mutated
//! (bit flip, zero, random byte) in a copy of the image, tables are also truncated, and the copy is
//! opened, scanned and probed with gets. Outcomes allowed:
//! * table / manifest / CURRENT damage: the open fails, or a read fails, or everything read is
//!   exactly the expected contents — never a wrong, missing, extra or resurrected entry, never a
//!   panic or a hang;
//! * write-ahead-log damage: additionally the recovered contents may equal the replay of the WAL's
//!   batches with one contiguous run of damaged batches skipped.

use std::collections::BTreeMap;
use std::path::PathBuf;

use raindb::{Batch, ReadOptions, WriteOptions, DB};

use crate::dbsim::{gen_key, gen_val, scan_db, Cfg};
use crate::drv::hex;
use crate::prng::Prng;
use crate::report::Report;
use crate::shard::{note_progress, ShardArgs};
use crate::simfs::SimFs;

type Map = BTreeMap<Vec<u8>, Vec<u8>>;
type BatchOps = Vec<(Vec<u8>, Option<Vec<u8>>)>;

pub struct Image {
    pub fs: SimFs,
    pub cfg: Cfg,
    pub base: Map,
    pub wal_batches: Vec<BatchOps>,
    pub expected: Map,
    pub seed: u64,
}

fn apply(m: &mut Map, b: &BatchOps) {
    for (k, v) in b {
        match v {
            Some(v) => {
                m.insert(k.clone(), v.clone());
            }
            None => {
                m.remove(k);
            }
        }
    }
}

fn write_batch(db: &DB, b: &BatchOps) -> Result<(), String> {
    let mut wb = Batch::new();
    for (k, v) in b {
        match v {
            Some(v) => {
                wb.add_put(k.clone(), v.clone());
            }
            None => {
                wb.add_delete(k.clone());
            }
        }
    }
    db.apply(WriteOptions::default(), wb).map_err(|e| e.to_string())
}

pub fn build_image(seed: u64) -> Result<Image, String> {
    let mut rng = Prng::new(seed);
    let fs = SimFs::new();
    let cfg = Cfg {
        memtable: 1 << 20, // phase-2 batches must stay in the WAL
        file: *rng.pick(&[512u64, 2048]),
        block: *rng.pick(&[64usize, 256, 1024]),
        reuse: rng.chance(1, 2),
        bloom_bits: 10,
        share: false,
    };
    let db = DB::open(cfg.options(&fs)).map_err(|e| e.to_string())?;
    let space = 24;
    let mut base = Map::new();
    for _ in 0..rng.range(5, 25) {
        let n = rng.range(1, 3);
        let b: BatchOps = (0..n).map(|_| (gen_key(&mut rng, space), if rng.chance(1, 5) { None } else { Some(gen_val(&mut rng, false)) })).collect();
        write_batch(&db, &b)?;
        apply(&mut base, &b);
    }
    if seed % 3 == 0 {
        // a 20 KB key that sorts behind everything: the edit recording the compacted table carries
        // it as the table's upper bound (a 20 KB manifest record)
        let b: BatchOps = vec![(vec![0xff; 20_000], Some(b"v1".to_vec()))];
        write_batch(&db, &b)?;
        apply(&mut base, &b);
    }
    if seed % 5 == 2 {
        // a compressible value of 150 KB: its data block is stored as a Snappy frame stream of three
        // chunks (64 KiB of input each) - the only kind of block with chunk headers INSIDE it
        let b: BatchOps = vec![(b"big-snappy".to_vec(), Some((0..150_000u32).map(|i| b"abcdefg"[(i % 7) as usize]).collect()))];
        write_batch(&db, &b)?;
        apply(&mut base, &b);
    }
    db.compact_range(None..None);
    db.verif_wait_idle(std::time::Duration::from_secs(20));
    if seed % 3 == 0 {
        // and a second, larger one after another round: the second 20 KB record starts behind the first
        // and crosses the 32 KiB block boundary, i.e. it is written as a First + Last fragment pair
        let b: BatchOps = vec![(vec![0xff; 20_001], Some(b"v2".to_vec()))];
        write_batch(&db, &b)?;
        apply(&mut base, &b);
        db.compact_range(None..None);
        db.verif_wait_idle(std::time::Duration::from_secs(20));
    }
    let mut wal_batches = vec![];
    let mut expected = base.clone();
    for _ in 0..rng.range(2, 10) {
        let n = rng.range(1, 4);
        let b: BatchOps = (0..n).map(|_| (gen_key(&mut rng, space), if rng.chance(1, 4) { None } else { Some(gen_val(&mut rng, false)) })).collect();
        write_batch(&db, &b)?;
        apply(&mut expected, &b);
        wal_batches.push(b);
    }
    if seed % 4 == 1 {
        // a value of 40 KB as the last operation of a batch: its WAL record spans two 32 KiB blocks
        // (First + Last fragments), so the type bytes of a fragmented WAL record are damaged too
        let b: BatchOps = vec![(b"zz-small".to_vec(), Some(b"s".to_vec())), (b"zz-big".to_vec(), Some((0..40_000u32).map(|i| (i % 251) as u8).collect()))];
        write_batch(&db, &b)?;
        apply(&mut expected, &b);
        wal_batches.push(b);
    }
    db.verif_wait_idle(std::time::Duration::from_secs(20));
    std::panic::catch_unwind(std::panic::AssertUnwindSafe(move || drop(db))).map_err(|_| "panic in close".to_string())?;
    if std::env::var("VERIF_TRACE").is_ok() {
        for (p, l) in fs.all_files() {
            let ps = p.to_string_lossy().to_string();
            eprintln!("image {seed}: file {ps} {l}");
            if ps.ends_with(".manifest") {
                let data = fs.read_file(&p).unwrap_or_default();
                eprintln!("image {seed}: {ps} {l} bytes, fragment types {:?}", log_type_offsets(&data).iter().map(|o| data[*o]).collect::<Vec<_>>());
                if let Ok((recs, err)) = raindb::verif::log_read_all(fs.dyn_fs(), &p) {
                    for r in recs {
                        eprintln!("  record {} bytes: {:?}", r.len(), raindb::verif::edit_decode(&r).map(|e| (e.wal_file_number, e.new_files.iter().map(|(l, f)| (*l, f.number, f.smallest.0.len(), f.largest.0.len())).collect::<Vec<_>>(), e.deleted_files)));
                    }
                    eprintln!("  read error {err:?}");
                }
            }
        }
    }
    Ok(Image { fs, cfg, base, wal_batches, expected, seed })
}

#[derive(Clone, Debug)]
pub enum Mutation {
    Flip(usize, u8),
    Zero(usize),
    Set(usize, u8),
    Truncate(usize),
}

impl Mutation {
    fn tok(&self) -> String {
        match self {
            Mutation::Flip(o, b) => format!("flip:{o}:{b}"),
            Mutation::Zero(o) => format!("zero:{o}"),
            Mutation::Set(o, v) => format!("set:{o}:{v}"),
            Mutation::Truncate(n) => format!("trunc:{n}"),
        }
    }
    fn parse(s: &str) -> Option<Mutation> {
        let p: Vec<&str> = s.split(':').collect();
        Some(match p[0] {
            "flip" => Mutation::Flip(p.get(1)?.parse().ok()?, p.get(2)?.parse().ok()?),
            "zero" => Mutation::Zero(p.get(1)?.parse().ok()?),
            "set" => Mutation::Set(p.get(1)?.parse().ok()?, p.get(2)?.parse().ok()?),
            "trunc" => Mutation::Truncate(p.get(1)?.parse().ok()?),
            _ => return None,
        })
    }
    fn apply(&self, data: &mut Vec<u8>) -> bool {
        match self {
            Mutation::Flip(o, b) => {
                if *o >= data.len() {
                    return false;
                }
                data[*o] ^= 1 << (b % 8);
                true
            }
            Mutation::Zero(o) => {
                if *o >= data.len() || data[*o] == 0 {
                    return false;
                }
                data[*o] = 0;
                true
            }
            Mutation::Set(o, v) => {
                if *o >= data.len() || data[*o] == *v {
                    return false;
                }
                data[*o] = *v;
                true
            }
            Mutation::Truncate(n) => {
                if *n >= data.len() {
                    return false;
                }
                data.truncate(*n);
                true
            }
        }
    }
}

fn mutation_offset(m: &Mutation) -> Option<usize> {
    match m {
        Mutation::Flip(o, _) | Mutation::Zero(o) | Mutation::Set(o, _) => Some(*o),
        Mutation::Truncate(_) => None,
    }
}

/// which part of a log fragment does byte `off` of a (well-formed, single-block) log file belong to
fn log_header_field(file: &[u8], off: usize) -> Option<&'static str> {
    let mut pos = 0usize;
    while pos + 7 <= file.len() {
        if 32768 - (pos % 32768) < 7 {
            pos += 32768 - (pos % 32768);
            continue;
        }
        let len = file[pos + 4] as usize + 256 * file[pos + 5] as usize;
        if off >= pos && off < pos + 4 {
            return Some("checksum");
        }
        if off >= pos + 4 && off < pos + 6 {
            return Some("length");
        }
        if off == pos + 6 {
            return Some("type");
        }
        if off < pos + 7 + len {
            return Some("payload");
        }
        pos += 7 + len;
    }
    None
}

/// offsets of the type bytes of all fragments of a well-formed log file
fn log_type_offsets(file: &[u8]) -> Vec<usize> {
    let mut out = vec![];
    let mut pos = 0usize;
    while pos + 7 <= file.len() {
        if 32768 - (pos % 32768) < 7 {
            pos += 32768 - (pos % 32768);
            continue;
        }
        let len = file[pos + 4] as usize + 256 * file[pos + 5] as usize;
        out.push(pos + 6);
        pos += 7 + len;
    }
    out
}

/// offsets of the chunk-type bytes of the Snappy frame streams in a table file: (offset, index of
/// the chunk inside its stream, number of chunks of the stream)
fn snappy_chunk_offsets(file: &[u8]) -> Vec<(usize, usize, usize)> {
    let ident = b"\xff\x06\x00\x00sNaPpY";
    let mut out = vec![];
    let mut i = 0;
    while i + ident.len() <= file.len() {
        if &file[i..i + ident.len()] == ident {
            let mut o = i + ident.len();
            let mut chunks = vec![];
            while o + 4 <= file.len() && (file[o] == 0x00 || file[o] == 0x01) {
                let len = file[o + 1] as usize | (file[o + 2] as usize) << 8 | (file[o + 3] as usize) << 16;
                if len < 4 || o + 4 + len > file.len() {
                    break;
                }
                chunks.push(o);
                o += 4 + len;
            }
            let n = chunks.len();
            for (k, c) in chunks.into_iter().enumerate() {
                out.push((c, k, n));
            }
            i = o.max(i + 1);
        } else {
            i += 1;
        }
    }
    out
}

fn type_name(b: u8) -> &'static str {
    match b {
        0 => "full",
        1 => "first",
        2 => "middle",
        3 => "last",
        _ => "invalid",
    }
}

fn file_class(p: &str) -> &'static str {
    if p.contains("/wal/") {
        "wal"
    } else if p.ends_with(".manifest") {
        "manifest"
    } else if p.ends_with(".rdb") {
        "table"
    } else if p.ends_with("CURRENT") {
        "current"
    } else {
        "other"
    }
}

/// outcome of opening and reading a (mutated) image
enum Outcome {
    OpenError(String),
    ReadError(String),
    Contents(Map),
    Panic(String),
}

fn observe(img: &SimFs, cfg: &Cfg, keys: &[Vec<u8>]) -> Outcome {
    let _ = crate::lsm::PANICS.lock().map(|mut g| g.clear());
    let r = std::panic::catch_unwind(std::panic::AssertUnwindSafe(|| -> Outcome {
        let db = match DB::open(cfg.options(img)) {
            Ok(d) => d,
            Err(e) => return Outcome::OpenError(e.to_string()),
        };
        db.verif_wait_idle(std::time::Duration::from_secs(20));
        let res = (|| {
            let got = match scan_db(&db, None) {
                Ok(g) => g,
                Err(e) => return Outcome::ReadError(e),
            };
            let mut m: Map = Map::new();
            for (k, v) in got {
                if m.insert(k.clone(), v).is_some() {
                    return Outcome::Contents(Map::from([(b"<scan returned a key twice>".to_vec(), k)]));
                }
            }
            for k in keys {
                match db.get(ReadOptions::default(), k) {
                    Ok(v) => {
                        if m.get(k) != Some(&v) {
                            // get and scan disagree: report what get says under a marker
                            m.insert([b"<get disagrees with scan> ".as_slice(), k.as_slice()].concat(), v);
                        }
                    }
                    Err(raindb::RainDBError::KeyNotFound) => {
                        if m.contains_key(k) {
                            m.insert([b"<get says absent, scan shows> ".as_slice(), k.as_slice()].concat(), vec![]);
                        }
                    }
                    Err(e) => return Outcome::ReadError(e.to_string()),
                }
            }
            Outcome::Contents(m)
        })();
        let bg_bad = db.verif_state().bad_state;
        drop(db);
        match (res, bg_bad) {
            (Outcome::Contents(_), Some(e)) if false => Outcome::ReadError(e),
            (r, _) => r,
        }
    }));
    let panics = crate::lsm::PANICS.lock().map(|mut g| std::mem::take(&mut *g)).unwrap_or_default();
    match r {
        Err(_) => Outcome::Panic(panics.first().map(|p| p.1.chars().take(200).collect()).unwrap_or_default()),
        Ok(o) => {
            if let Some(p) = panics.iter().find(|p| p.0.starts_with("raindb-")) {
                return Outcome::Panic(format!("background thread: {}", p.1.chars().take(200).collect::<String>()));
            }
            o
        }
    }
}

fn first_diff(got: &Map, want: &Map) -> String {
    for (k, v) in want {
        match got.get(k) {
            None => return format!("key {} is missing", hex(k)),
            Some(g) if g != v => return format!("key {} has {} bytes ({}…), expected {} bytes ({}…)", hex(k), g.len(), hex(&g[..g.len().min(6)]), v.len(), hex(&v[..v.len().min(6)])),
            _ => {}
        }
    }
    for (k, _) in got {
        if !want.contains_key(k) {
            return format!("unexpected key {}", String::from_utf8_lossy(k).chars().take(60).collect::<String>() + " / " + &hex(k));
        }
    }
    "equal".into()
}

pub fn check_one(img: &Image, path: &PathBuf, m: &Mutation, rep: &mut Report) -> bool {
    let ps = path.to_string_lossy().to_string();
    let cls = file_class(&ps);
    let line = format!("c15 img={} file={} mut={}", img.seed, ps, m.tok());
    let copy = img.fs.snapshot();
    let mut data = match copy.read_file(path) {
        Some(d) => d,
        None => return false,
    };
    if !m.apply(&mut data) {
        return false;
    }
    copy.write_file_raw(path, data);
    let mut keys: Vec<Vec<u8>> = img.expected.keys().cloned().collect();
    keys.extend(img.base.keys().cloned());
    for b in &img.wal_batches {
        for (k, _) in b {
            keys.push(k.clone());
        }
    }
    keys.sort();
    keys.dedup();
    rep.case(&line, true);
    rep.count(&format!("c15.file.{cls}"));
    match observe(&copy, &img.cfg, &keys) {
        Outcome::OpenError(_) => rep.count("c15.outcome.open-error"),
        Outcome::ReadError(_) => rep.count("c15.outcome.read-error"),
        Outcome::Panic(msg) => {
            rep.count("c15.outcome.panic");
            rep.fail("oracle", &format!("c15:panic-on-corrupted-{cls}"), &format!("{} of {ps}: the database panicked instead of reporting an error: {msg}", m.tok()), &line);
        }
        Outcome::Contents(got) => {
            if got == img.expected {
                rep.count("c15.outcome.unaffected");
                return true;
            }
            if cls == "wal" {
                // base + WAL batches with one contiguous run skipped
                let n = img.wal_batches.len();
                for d in 0..=n {
                    for j in d..=n {
                        let mut mm = img.base.clone();
                        for (i, b) in img.wal_batches.iter().enumerate() {
                            if i < d || i >= j {
                                apply(&mut mm, b);
                            }
                        }
                        if mm == got {
                            rep.count("c15.outcome.wal-batches-skipped");
                            return true;
                        }
                    }
                }
            }
            // the scan ended early / skipped a source, but every point read is right or fails?
            let marker = |k: &Vec<u8>| k.starts_with(b"<get disagrees with scan> ") || k.starts_with(b"<get says absent");
            let scan_only: Map = got.iter().filter(|(k, _)| !marker(k)).map(|(k, v)| (k.clone(), v.clone())).collect();
            let scan_is_subset = scan_only.iter().all(|(k, v)| img.expected.get(k) == Some(v));
            let gets_right = got.iter().filter(|(k, _)| marker(k)).all(|(k, v)| {
                if let Some(real) = k.strip_prefix(b"<get disagrees with scan> ".as_slice()) {
                    img.expected.get(real) == Some(v)
                } else {
                    false
                }
            });
            let missing_all_reported = img.expected.keys().all(|k| scan_only.contains_key(k) || got.contains_key(&[b"<get disagrees with scan> ".as_slice(), k.as_slice()].concat()));
            if cls == "table" && scan_is_subset && gets_right && missing_all_reported {
                rep.count("c15.outcome.scan-silently-incomplete");
                rep.fail(
                    "oracle",
                    "c15:scan-silently-incomplete-on-corrupted-table",
                    &format!("{} of {ps}: every get answers correctly (or fails), but a full scan silently yields only {} of {} entries: the iterator swallowed the block's checksum error", m.tok(), scan_only.len(), img.expected.len()),
                    &line,
                );
                return true;
            }
            // log framing has no integrity protection for the 2-byte length and the type byte of a
            // fragment header: a damaged length makes the reader run into the end of the file,
            // which is indistinguishable from a torn final write
            if cls == "manifest" || cls == "wal" {
                if let (Some(orig), Some(off)) = (img.fs.read_file(path), mutation_offset(m)) {
                    if let Some(field) = log_header_field(&orig, off) {
                        if field == "length" || field == "type" {
                            rep.count("c15.outcome.log-header-field-damage");
                            // which type became which: the recorded findings name the transitions the
                            // unchanged reader lets through; any other one is a new violation
                            let detail = if field == "type" {
                                let mut damaged = orig.clone();
                                m.apply(&mut damaged);
                                let now = damaged.get(off).copied().unwrap_or(0xff);
                                format!(":{}-to-{}", type_name(orig[off]), type_name(now))
                            } else {
                                String::new()
                            };
                            rep.fail(
                                "oracle",
                                &format!("c15:{cls}-fragment-{field}-field-not-protected{detail}"),
                                &format!("{} of {ps} hits the {field} field of a fragment header, which no checksum covers: the reader runs into the end of the file (taken for a torn tail) or mis-frames the rest, and the records behind it are dropped without an error: {}", m.tok(), first_diff(&got, &img.expected)),
                                &line,
                            );
                            return true;
                        }
                    }
                }
            }
            rep.count("c15.outcome.wrong-data");
            rep.fail(
                "oracle",
                &format!("c15:corrupted-{cls}-served-as-data"),
                &format!("{} of {ps} ({} bytes): the database opened and every read succeeded, but {}", m.tok(), copy.read_file(path).map_or(0, |d| d.len()), first_diff(&got, &img.expected)),
                &line,
            );
        }
    }
    true
}

pub fn rule() -> &'static str {
    "small database images (5-25 batches compacted into table files with 64 B-1 KiB blocks, 2-9 batches left in the write-ahead log, in one image in four followed by a batch with a 40 KB value whose WAL record spans two log blocks, clean close) on SimFs; every offset of every persistent file up to the per-file budget (an even sample beyond) x {flip one bit, zero the byte, set a random byte}, plus table truncations at sampled lengths; each mutated copy is opened, scanned and probed with gets of every key ever written. Non-trivial = the mutation changed the file; distinct by (image seed, file, mutation)."
}

pub fn run(tier: &str, seed: u64, replay: Option<&str>, shard: Option<ShardArgs>) -> Report {
    crate::lsm::install_panic_hook();
    let mut rep = Report::new("c15", rule());
    let thorough = tier == "thorough";
    if let Some(line) = replay {
        let get = |name: &str| line.split_whitespace().find_map(|t| t.strip_prefix(&format!("{name}="))).map(|s| s.to_string());
        let (Some(iseed), Some(file), Some(mu)) = (get("img").and_then(|s| s.parse::<u64>().ok()), get("file"), get("mut").and_then(|s| Mutation::parse(&s))) else {
            rep.fail("oracle", "c15:bad-replay", "cannot parse replay case", line);
            return rep;
        };
        match build_image(iseed) {
            Ok(img) => {
                check_one(&img, &PathBuf::from(file), &mu, &mut rep);
            }
            Err(e) => rep.fail("oracle", "c15:image-build-failed", &e, line),
        }
        return rep;
    }
    let mut rng = Prng::new(seed ^ 0xC15);
    let nimg = if thorough { 24 } else { 6 };
    let mut seeds: Vec<u64> = (0..nimg).map(|_| rng.next() % 1_000_000).collect();
    if !seeds.iter().any(|s| s % 5 == 2) {
        // at least one image with a multi-chunk Snappy block (seed % 5 == 2, see build_image)
        seeds[0] = seeds[0] - seeds[0] % 5 + 2;
    }
    let (idx, cnt) = shard.as_ref().map_or((0, 1), |s| (s.index, s.count));
    let shard_opt = shard;
    let mut job_no = 0usize;
    for iseed in seeds {
        let img = match build_image(iseed) {
            Ok(i) => i,
            Err(e) => {
                rep.notes.push(format!("image {iseed} could not be built: {e}"));
                continue;
            }
        };
        let mut prng = Prng::new(iseed ^ 0x5eed);
        for (path, len) in img.fs.all_files() {
            let ps = path.to_string_lossy().to_string();
            let cls = file_class(&ps);
            if cls == "other" || len == 0 {
                continue;
            }
            let budget = if thorough { 3000 } else { 400 };
            let stride = (len / budget).max(1);
            let off0 = prng.below(stride as u64) as usize;
            let mut muts: Vec<Mutation> = vec![];
            let mut o = off0;
            while o < len {
                muts.push(Mutation::Flip(o, prng.below(8) as u8));
                muts.push(Mutation::Zero(o));
                muts.push(Mutation::Set(o, prng.next() as u8));
                o += stride;
            }
            // always the last 60 bytes (footer / tail records) and the first 16
            for o in (len.saturating_sub(60)..len).chain(0..len.min(16)) {
                muts.push(Mutation::Flip(o, prng.below(8) as u8));
            }
            if cls == "manifest" || cls == "wal" {
                // every fragment's type byte set to every other type (the first and the last eight
                // fragments of long logs), and its length bytes flipped
                if let Some(data) = img.fs.read_file(&path) {
                    let offs = log_type_offsets(&data);
                    let n = offs.len();
                    for (i, o) in offs.iter().enumerate() {
                        if i >= 8 && i + 8 < n {
                            continue;
                        }
                        for v in 0..=5u8 {
                            muts.push(Mutation::Set(*o, v));
                        }
                        muts.push(Mutation::Flip(*o - 1, prng.below(8) as u8));
                        muts.push(Mutation::Flip(*o - 2, prng.below(8) as u8));
                    }
                }
            }
            if cls == "table" {
                // the chunk headers inside compressed blocks: type byte to a skippable / reserved /
                // other type, length bytes flipped - every chunk of a multi-chunk stream, a sample of
                // the single-chunk ones
                if let Some(data) = img.fs.read_file(&path) {
                    let offs = snappy_chunk_offsets(&data);
                    let singles = offs.iter().filter(|c| c.2 == 1).count();
                    let mut taken = 0;
                    for (o, _, n) in offs {
                        if n == 1 {
                            taken += 1;
                            if taken > 6 && taken + 3 < singles {
                                continue;
                            }
                        } else {
                            rep.count("c15.snappy-chunk-headers-of-multi-chunk-blocks");
                        }
                        for v in [0x80u8, 0xfe, 0x7f, 0x01, 0x00, 0xff] {
                            muts.push(Mutation::Set(o, v));
                        }
                        for d in 1..=3 {
                            muts.push(Mutation::Flip(o + d, prng.below(8) as u8));
                        }
                    }
                }
                for _ in 0..(if thorough { 40 } else { 8 }) {
                    muts.push(Mutation::Truncate(prng.below(len as u64) as usize));
                }
                muts.push(Mutation::Truncate(len - 1));
                muts.push(Mutation::Truncate(len.saturating_sub(48)));
            }
            for m in muts {
                job_no += 1;
                if job_no % cnt != idx {
                    continue;
                }
                note_progress(&shard_opt, &format!("c15 img={} file={} mut={}", iseed, ps, m.tok()));
                check_one(&img, &path, &m, &mut rep);
                if rep.failures.len() >= 150 {
                    return rep;
                }
            }
        }
    }
    rep
}
