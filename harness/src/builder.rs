//! Version builder: the real `VersionBuilder` (one builder for a whole list of edits, as recovery
//! uses it) against the Lean model (`Rain/Builder.lean`) on synthetic versions and edit lists.

use std::collections::BTreeMap;

use raindb::verif::FileDump;
use raindb::DbOptions;

use crate::drv::Drv;
use crate::prng::Prng;
use crate::report::Report;

type Edit = (Vec<(usize, u64)>, Vec<(usize, FileDump)>);

fn brief(levels: &[Vec<u64>]) -> String {
    levels.iter().map(|l| if l.is_empty() { "_".to_string() } else { l.iter().map(|n| n.to_string()).collect::<Vec<_>>().join(",") }).collect::<Vec<_>>().join("|")
}

fn edit_tok(e: &Edit) -> String {
    let d = if e.0.is_empty() { "-".to_string() } else { e.0.iter().map(|(l, n)| format!("{l}:{n}")).collect::<Vec<_>>().join(",") };
    let a = if e.1.is_empty() { "-".to_string() } else { e.1.iter().map(|(l, f)| format!("{l}:{}", crate::dbsim::file_tok_pub(f))).collect::<Vec<_>>().join("+") };
    format!("del={d}~add={a}")
}

/// edits in the shapes the database writes (flush: one added file; trivial move: deleted at L and
/// added at L+1 with the same number; compaction: inputs of two levels deleted, outputs added) plus
/// a few arbitrary ones (may overlap: the overlap assertion must fire in model and implementation alike)
fn gen_edits(rng: &mut Prng, levels: &[Vec<FileDump>]) -> Vec<Edit> {
    let mut cur: Vec<Vec<FileDump>> = levels.to_vec();
    let mut next_num = 1000u64;
    let key = |i: u64| format!("k{:03}", i).into_bytes();
    let mut edits = vec![];
    for _ in 0..rng.range(1, 5) {
        let kind = rng.below(4);
        let mut del = vec![];
        let mut add = vec![];
        match kind {
            0 => {
                // flush to level 0 (anything goes there)
                let a = rng.below(60);
                let f = FileDump { number: next_num, size: rng.range(1, 300), smallest: (key(a), rng.range(500, 1000), 1), largest: (key(a + rng.range(1, 9)), rng.range(1, 400), 1), allowed_seeks: 100 };
                next_num += 1;
                cur[0].push(f.clone());
                add.push((0usize, f));
            }
            1 => {
                // trivial move of one file to the next level (may overlap there: then both must panic)
                let cands: Vec<usize> = (0..5).filter(|l| !cur[*l].is_empty()).collect();
                if let Some(l) = cands.first().copied().filter(|_| !cands.is_empty()).map(|_| *rng.pick(&cands)) {
                    let i = rng.below(cur[l].len() as u64) as usize;
                    let f = cur[l].remove(i);
                    del.push((l, f.number));
                    cur[l + 1].push(f.clone());
                    add.push((l + 1, f));
                }
            }
            2 => {
                // compaction-like: delete 1-2 files of a level and put 1-2 fresh files covering the gap
                let cands: Vec<usize> = (1..5).filter(|l| !cur[*l].is_empty()).collect();
                if !cands.is_empty() {
                    let l = *rng.pick(&cands);
                    let i = rng.below(cur[l].len() as u64) as usize;
                    let f = cur[l].remove(i);
                    del.push((l, f.number));
                    let g = FileDump { number: next_num, size: f.size, smallest: f.smallest.clone(), largest: f.largest.clone(), allowed_seeks: 100 };
                    next_num += 1;
                    cur[l].push(g.clone());
                    add.push((l, g));
                }
            }
            _ => {
                // arbitrary: delete something that may not exist, add something that may overlap
                if rng.chance(1, 2) {
                    del.push((rng.below(6) as usize, rng.range(10, 40)));
                }
                let l = rng.below(4) as usize;
                let a = rng.below(60);
                let f = FileDump { number: next_num, size: 10, smallest: (key(a), 900, 1), largest: (key(a + rng.below(6)), 100, 1), allowed_seeks: 100 };
                next_num += 1;
                add.push((l, f));
            }
        }
        if !del.is_empty() || !add.is_empty() {
            edits.push((del, add));
        }
    }
    edits
}

pub fn rule() -> &'static str {
    "the real VersionBuilder (accumulate_changes for a list of edits, then apply_changes on a base version: what recovery does with a whole manifest, and with one edit what log_and_apply does) against the Lean model on synthetic versions (level-0 overlap, sorted deeper levels, adjacent files sharing a boundary user key) and 1-4 edits shaped like flushes, trivial moves, compactions, plus arbitrary edits that may overlap (the overlap assertion must fire in both) or delete absent files. Non-trivial = at least one edit with an added or deleted file; distinct by case text."
}

fn one(seed: u64, drv: &mut Drv, rep: &mut Report) {
    let mut rng = Prng::new(seed);
    let levels = crate::pick::gen_layout(&mut rng);
    if !crate::pick::well_formed(&levels) {
        return;
    }
    let edits = gen_edits(&mut rng, &levels);
    let ltok = crate::dbsim::levels_tok(&levels, &BTreeMap::new());
    let etok = if edits.is_empty() { "-".to_string() } else { edits.iter().map(edit_tok).collect::<Vec<_>>().join(";") };
    let case = format!("builder gen={seed}");
    rep.case(&case, !edits.is_empty());
    static BASE: std::sync::OnceLock<DbOptions> = std::sync::OnceLock::new();
    let opts = BASE.get_or_init(DbOptions::with_memory_env).clone();
    let real = raindb::verif::builder_apply(&opts, &levels, &edits);
    let model = drv.ask(&format!("builder.apply {ltok} {etok}"));
    if model == "no-model" {
        return;
    }
    rep.model_requests += 1;
    match (&real, model.as_str()) {
        (Ok(r), m) if m == format!("ok {}", brief(r)) => rep.count("builder.agree.ok"),
        (Err(_), m) if m.starts_with("panic ") => rep.count("builder.agree.panic"),
        (r, m) => {
            rep.drift.push(format!("version builder differs: implementation [{}] model [{m}] :: {case} levels={ltok} edits={etok}", match r { Ok(r) => format!("ok {}", brief(r)), Err(e) => format!("panic: {}", e.chars().take(80).collect::<String>()) }));
            rep.count("model_drift");
        }
    }
}

pub fn run(tier: &str, seed: u64, replay: Option<&str>, drv_path: &str) -> Report {
    crate::lsm::install_panic_hook();
    let mut rep = Report::new("builder", rule());
    let mut drv = Drv::spawn(drv_path);
    if let Some(line) = replay {
        match line.split_whitespace().find_map(|t| t.strip_prefix("gen=")).and_then(|s| s.parse::<u64>().ok()) {
            Some(s) => one(s, &mut drv, &mut rep),
            None => rep.fail("oracle", "builder:bad-replay", "cannot parse replay case", line),
        }
        return rep;
    }
    let mut rng = Prng::new(seed ^ 0xB01D);
    let n = if tier == "thorough" { 30_000 } else { 2500 };
    for _ in 0..n {
        one(rng.next() % 1_000_000_000_000, &mut drv, &mut rep);
    }
    rep
}
