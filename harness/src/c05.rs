//! C05 / C06 (and the schedule-dependent parts of C03, C09, C11): directed schedules through the
//! scheduling hooks, plus an unscheduled multi-threaded stress run checked per key.
//!
//! Directed scenarios (each parameterised by a seed: configuration, keys, number of fill writes,
//! which occurrence of the point):
//!  * `get-parked`: a reader is parked inside `DB::get` after it released the database mutex
//!    (`get:unlocked`) or before it reads tables (`get:before-tables`), while other threads write
//!    until the memtable has been rotated and flushed (and optionally compacted, with obsolete
//!    files deleted); the reader resumes. Its answer must be a value the key had between the
//!    call's start and end.
//!  * `batch-parked`: a writer applying a multi-key batch is parked before the WAL append, after
//!    it, in the middle of the memtable insertions (every position) and after them; meanwhile
//!    readers get every key, scan, and take a snapshot: they must see none of the batch (its
//!    sequence number is not published); after the writer finishes they must see all of it, and
//!    the snapshot taken in between must still see none.
//!  * `group-commit`: the queue head is parked before its WAL append while other writers enqueue;
//!    all return their own outcome, every write is applied exactly once, sequence numbers are
//!    consecutive.
//!  * `bg-parked`: the background thread is parked while building a table / before writing the
//!    manifest / before deleting obsolete files / inside the compaction loop while readers and
//!    writers keep going; nothing deadlocks and all answers are right.
//!  * `stress`: N threads issue puts/deletes/gets (one designated writer per key) with tiny
//!    memtables; every read must return a value written between the last write completed before
//!    the read started and the last write started before it ended; per-thread reads of a key never
//!    go backwards.

use std::collections::BTreeMap;
use std::sync::atomic::{AtomicU64, Ordering};
use std::sync::Arc;
use std::time::Duration;

use raindb::{Batch, ReadOptions, WriteOptions, DB};

use crate::dbsim::{scan_db, with_deadline, Cfg};
use crate::drv::hex;
use crate::prng::Prng;
use crate::report::Report;
use crate::sched;
use crate::shard::{note_progress, ShardArgs};
use crate::simfs::SimFs;

type Fail = (String, String);

/// path of the model driver (set by `run`); `none` = no model comparison
pub static DRV_PATH: std::sync::OnceLock<String> = std::sync::OnceLock::new();
/// model disagreements found by scenarios (drift, not violations)
pub static DRIFT: parking_lot::Mutex<Vec<String>> = parking_lot::Mutex::new(Vec::new());
pub static MODEL_REQUESTS: std::sync::atomic::AtomicU64 = std::sync::atomic::AtomicU64::new(0);
static COMPACT_DURING_BATCH: std::sync::atomic::AtomicU64 = std::sync::atomic::AtomicU64::new(0);

fn open(cfg: &Cfg, fs: &SimFs) -> Result<Arc<DB>, Fail> {
    DB::open(cfg.options(fs)).map(Arc::new).map_err(|e| ("c05:open-failed".to_string(), e.to_string()))
}

fn small_cfg(rng: &mut Prng) -> Cfg {
    Cfg { memtable: *rng.pick(&[256usize, 512, 1024]), file: *rng.pick(&[512u64, 1024, 4096]), block: *rng.pick(&[64usize, 256]), reuse: true, bloom_bits: 10, share: false }
}

fn close(db: Arc<DB>) -> Option<Fail> {
    db.verif_wait_idle(Duration::from_secs(20));
    let groups = check_groups();
    match Arc::try_unwrap(db) {
        Ok(d) => {
            if std::panic::catch_unwind(std::panic::AssertUnwindSafe(move || drop(d))).is_err() {
                return Some(("c09:panic-in-close".into(), "closing the database panicked".into()));
            }
            groups
        }
        Err(_) => groups,
    }
}

pub static GROUPS_CHECKED: std::sync::atomic::AtomicU64 = std::sync::atomic::AtomicU64::new(0);
pub static GROUPS_CUT: std::sync::atomic::AtomicU64 = std::sync::atomic::AtomicU64::new(0);

/// Every group commit formed while more than one writer was queued (recorded by a hook together with
/// the queue the leader saw) against the grouping model (`Rain/Group.lean`), and directly against
/// what the theorems state: the group's batch holds exactly the operations of its members, and
/// nobody else is popped with the leader except one trailing batch-less writer.
fn check_groups() -> Option<Fail> {
    let events = raindb::verif::events_take(crate::dbsim::DB_PATH);
    let path = DRV_PATH.get()?;
    let mut drv: Option<crate::drv::Drv> = None;
    let mut params = String::new();
    let mut fail = None;
    for ev in events {
        let raindb::verif::Event::Group { queue, last, operations } = ev else { continue };
        GROUPS_CHECKED.fetch_add(1, Ordering::SeqCst);
        let show = queue.iter().map(|(sz, sy, b, n)| format!("{sz}B/{}ops/{}{}", n, if *sy { "sync" } else { "nosync" }, if *b { "" } else { "/no-batch" })).collect::<Vec<_>>().join(", ");
        if last >= queue.len() {
            fail.get_or_insert(("c05:group-last-writer-not-in-queue".into(), format!("the last writer of a group commit is not in the writer queue [{show}]")));
            continue;
        }
        let members = if queue[last].2 { last + 1 } else { last };
        let ops: usize = queue[..members].iter().map(|q| q.3).sum();
        if members < queue.len() {
            GROUPS_CUT.fetch_add(1, Ordering::SeqCst);
        }
        if ops != operations {
            fail.get_or_insert((
                "c05:writer-acknowledged-with-a-group-that-does-not-hold-its-batch".into(),
                format!("a group commit over the queue [{show}] pops the writers up to index {last} but its batch holds {operations} operations, the batches of those writers hold {ops}: a writer is acknowledged although its operations were not written (or operations of a writer still queued were)"),
            ));
            continue;
        }
        if path == "none" {
            continue;
        }
        let d = drv.get_or_insert_with(|| crate::drv::Drv::spawn(path));
        if params.is_empty() {
            params = d.ask("group.params");
        }
        let toks = queue.iter().map(|(sz, sy, b, _)| format!("{}:{}:{}", sz, if *sy { 's' } else { 'n' }, if *b { 'b' } else { 'e' })).collect::<Vec<_>>().join(",");
        let ans = d.ask(&format!("group.build {params} {toks}"));
        MODEL_REQUESTS.fetch_add(1, Ordering::SeqCst);
        let total: usize = queue[..members].iter().map(|q| q.0).sum();
        let real = format!("{members} {last} {total}");
        if ans != real {
            DRIFT.lock().push(format!("group commit over the queue [{show}]: the implementation grouped [members last total] = [{real}], the grouping model gives [{ans}] :: c05 group {toks}"));
        }
    }
    fail
}

/// reader parked inside get while rotation + flush (+ compaction + deletion) complete
fn get_parked(seed: u64) -> Vec<Fail> {
    let mut rng = Prng::new(seed);
    let mut fails = vec![];
    let fs = SimFs::new();
    let cfg = small_cfg(&mut rng);
    let db = match open(&cfg, &fs) {
        Ok(d) => d,
        Err(f) => return vec![f],
    };
    let point = *rng.pick(&["get:unlocked", "get:unlocked", "get:before-tables"]);
    let key: Vec<u8> = rng.pick(&[b"k".to_vec(), b"key-parked".to_vec(), vec![0xff], vec![]]).clone();
    let v0 = vec![b'0'; rng.range(1, 40) as usize];
    // where does the key live when the reader starts?
    let place = rng.below(3); // 0 memtable, 1 flushed, 2 flushed + overwritten in memtable
    db.put(WriteOptions::default(), key.clone(), v0.clone()).unwrap();
    let mut current = v0.clone();
    if place >= 1 {
        db.compact_range(None..None);
        db.verif_wait_idle(Duration::from_secs(20));
    }
    if place == 2 {
        current = vec![b'1'; 7];
        db.put(WriteOptions::default(), key.clone(), current.clone()).unwrap();
    }
    sched::reset();
    let gate = sched::arm("reader", point, 1);
    let (d2, k2) = (db.clone(), key.clone());
    let reader = std::thread::spawn(move || {
        sched::set_role("reader");
        d2.get(ReadOptions::default(), &k2)
    });
    if !gate.wait_parked(Duration::from_secs(10)) {
        gate.release();
        let _ = reader.join();
        // the point was not reached (e.g. the value was found before `get:before-tables`)
        let _ = close(db);
        return fails;
    }
    // meanwhile: other writers fill the memtable until it is rotated and flushed; the key itself
    // is optionally overwritten (then both values are legal answers)
    let overwrite = rng.chance(1, 3);
    let mut allowed: Vec<Option<Vec<u8>>> = vec![Some(current.clone())];
    let nfill = rng.range(20, 120);
    for i in 0..nfill {
        db.put(WriteOptions::default(), format!("fill-{:05}", i).into_bytes(), vec![b'f'; 60]).unwrap();
        if overwrite && i == nfill / 2 {
            let v = vec![b'2'; 9];
            db.put(WriteOptions::default(), key.clone(), v.clone()).unwrap();
            allowed.push(Some(v));
        }
    }
    if rng.chance(1, 2) {
        db.compact_range(None..None);
    }
    db.verif_wait_idle(Duration::from_secs(20));
    let st = db.verif_state();
    gate.release();
    let got = reader.join();
    match got {
        Err(_) => fails.push(("c09:panic".into(), "the parked reader panicked".into())),
        Ok(Ok(v)) => {
            if !allowed.contains(&Some(v.clone())) {
                fails.push(("c05:get-returns-value-never-current-during-call".into(), format!("get({}) parked at {point} returned {} bytes ({}…), not a value the key had during the call", hex(&key), v.len(), hex(&v[..v.len().min(4)]))));
            }
        }
        Ok(Err(raindb::RainDBError::KeyNotFound)) => {
            fails.push((
                "c05:get-loses-key-across-memtable-rotation".into(),
                format!(
                    "get({}) was parked at {point} (key in {}), other threads wrote {nfill} keys so that the memtable was rotated and flushed (levels now {:?}); the reader resumed and returned KeyNotFound although the key had a value during the whole call",
                    hex(&key),
                    ["the memtable", "a table file", "a table file and the memtable"][place as usize],
                    st.levels.iter().map(|l| l.len()).collect::<Vec<_>>()
                ),
            ));
        }
        Ok(Err(e)) => fails.push(("c05:get-fails-after-park".into(), format!("get({}) parked at {point} failed after resuming: {e} (a file it needed was deleted?)", hex(&key)))),
    }
    // afterwards everything is still right
    match db.get(ReadOptions::default(), &key) {
        Ok(v) if Some(&Some(v.clone())) == allowed.last() => {}
        other => fails.push(("c05:final-value-wrong".into(), format!("after the scenario get({}) = {:?}", hex(&key), other.map(|v| v.len()))),),
    }
    if let Some(f) = close(db) {
        fails.push(f);
    }
    fails
}

/// writer parked at every stage of applying a multi-key batch
fn batch_parked(seed: u64) -> Vec<Fail> {
    let mut rng = Prng::new(seed);
    let mut fails = vec![];
    let fs = SimFs::new();
    let mut cfg = small_cfg(&mut rng);
    let big_batch = rng.chance(1, 4);
    if big_batch {
        cfg.memtable = 256;
    }
    let db = match open(&cfg, &fs) {
        Ok(d) => d,
        Err(f) => return vec![f],
    };
    let nkeys = if big_batch { rng.range(20, 200) } else { rng.range(2, 8) } as usize;
    let keys: Vec<Vec<u8>> = (0..nkeys).map(|i| format!("b{:04}", i).into_bytes()).collect();
    // old state: some keys exist, some not
    let mut old: BTreeMap<Vec<u8>, Vec<u8>> = BTreeMap::new();
    for k in &keys {
        if rng.chance(1, 2) {
            let v = vec![b'o'; rng.range(1, 20) as usize];
            db.put(WriteOptions::default(), k.clone(), v.clone()).unwrap();
            old.insert(k.clone(), v);
        }
    }
    let mut new = old.clone();
    let mut batch = Batch::new();
    for k in &keys {
        if rng.chance(1, 5) {
            batch.add_delete(k.clone());
            new.remove(k);
        } else {
            let v = vec![b'n'; rng.range(1, 30) as usize];
            batch.add_put(k.clone(), v.clone());
            new.insert(k.clone(), v);
        }
    }
    let (point, occ) = match rng.below(5) {
        0 => ("write:before-wal", 1),
        1 => ("write:after-wal", 1),
        2 => ("write:after-apply", 1),
        _ => ("write:mid-apply", rng.range(1, nkeys as u64) as u32),
    };
    sched::reset();
    let gate = sched::arm("writer", point, occ);
    let d2 = db.clone();
    let writer = std::thread::spawn(move || {
        sched::set_role("writer");
        d2.apply(WriteOptions::default(), batch)
    });
    if !gate.wait_parked(Duration::from_secs(10)) {
        gate.release();
        let _ = writer.join();
        let _ = close(db);
        return vec![("c06:writer-never-reached-point".into(), format!("the writer did not reach {point}"))];
    }
    // readers while the batch is in flight: must see the old state exactly
    let check = |what: &str, want: &BTreeMap<Vec<u8>, Vec<u8>>, snap: Option<raindb::Snapshot>, fails: &mut Vec<Fail>| {
        let ro = || ReadOptions { fill_cache: true, snapshot: snap.clone() };
        let mut seen_new = 0usize;
        let mut seen_old = 0usize;
        for k in &keys {
            let g = match db.get(ro(), k) {
                Ok(v) => Some(v),
                Err(raindb::RainDBError::KeyNotFound) => None,
                Err(e) => {
                    fails.push(("c06:read-error".into(), format!("{what}: get failed: {e}")));
                    return;
                }
            };
            if g.as_ref() != old.get(k) || g.as_ref() != new.get(k) {
                if g.as_ref() == new.get(k) && g.as_ref() != old.get(k) {
                    seen_new += 1;
                }
                if g.as_ref() == old.get(k) && g.as_ref() != new.get(k) {
                    seen_old += 1;
                }
            }
            if g.as_ref() != want.get(k) {
                // decide below: partial or wholly wrong
            }
        }
        if seen_new > 0 && seen_old > 0 {
            fails.push(("c06:reader-sees-part-of-a-batch".into(), format!("{what} (writer parked at {point}#{occ}): gets see {seen_new} keys with the batch's values and {seen_old} keys with the old values")));
        } else if want == &old && seen_new > 0 {
            fails.push(("c06:batch-visible-before-publication".into(), format!("{what} (writer parked at {point}#{occ}): the whole batch is already visible although the write has not returned and its sequence number is not published")));
        } else if want == &new && seen_old > 0 {
            fails.push(("c06:batch-not-visible-after-completion".into(), format!("{what}: the batch is not visible after apply returned")));
        }
        match scan_db(&db, snap.clone()) {
            Ok(got) => {
                let m: BTreeMap<Vec<u8>, Vec<u8>> = got.into_iter().filter(|(k, _)| k.starts_with(b"b")).collect();
                if &m != want {
                    let n_new = keys.iter().filter(|k| m.get(*k) == new.get(*k) && old.get(*k) != new.get(*k)).count();
                    let n_old = keys.iter().filter(|k| m.get(*k) == old.get(*k) && old.get(*k) != new.get(*k)).count();
                    if n_new > 0 && n_old > 0 {
                        fails.push(("c06:reader-sees-part-of-a-batch".into(), format!("{what} (writer parked at {point}#{occ}): a scan sees {n_new} keys with the batch's values and {n_old} with the old values")));
                    } else {
                        fails.push(("c06:scan-wrong-during-batch".into(), format!("{what} (writer parked at {point}#{occ}): scan differs from the expected state")));
                    }
                }
            }
            Err(e) => fails.push(("c06:read-error".into(), format!("{what}: scan failed: {e}"))),
        }
    };
    check("while the batch is in flight", &old, None, &mut fails);
    // tie to the protocol model: the hook points the writer has passed, the published sequence
    // number and the number of batch entries already in the memtable, against the model's state
    if let Some(path) = DRV_PATH.get() {
        if path != "none" {
            let passed: Vec<String> = sched::trace().into_iter().filter(|(r, _)| r == "writer").map(|(_, p)| p).collect();
            let st = db.verif_state();
            let base = st.last_sequence; // unpublished while parked
            let inmem = st.mem.iter().filter(|e| e.1 > base).count();
            let mut drv = crate::drv::Drv::spawn(path);
            let ans = drv.ask(&format!("proto.write {} {} {}", base, nkeys, passed.len()));
            MODEL_REQUESTS.fetch_add(1, Ordering::SeqCst);
            let want = format!("{} lastSeq={} inmem={} visible=0", passed.join(","), base, inmem);
            if ans != want {
                DRIFT.lock().push(format!("writer parked at {point}#{occ}: implementation shows [{want}], the protocol model predicts [{ans}] :: c05 scenario=batch-parked seed={seed}"));
            }
        }
    }
    let snap = db.get_snapshot();
    // another client asks for a manual compaction of the whole range while the batch is half
    // applied: it has to queue behind the writer (or at least leave the batch whole)
    let mut compactor = None;
    if rng.chance(1, 2) {
        COMPACT_DURING_BATCH.fetch_add(1, Ordering::SeqCst);
        let d3 = db.clone();
        let done = Arc::new(std::sync::atomic::AtomicBool::new(false));
        let done2 = done.clone();
        compactor = Some(std::thread::spawn(move || {
            sched::set_role("compactor");
            d3.compact_range(None..None);
            done2.store(true, Ordering::SeqCst);
        }));
        let t0 = std::time::Instant::now();
        while !done.load(Ordering::SeqCst) && db.verif_state().writer_queue_len < 2 && t0.elapsed() < Duration::from_secs(3) {
            std::thread::sleep(Duration::from_millis(2));
        }
        check("while the batch is in flight and a manual compaction has been requested", &old, None, &mut fails);
    }
    gate.release();
    match writer.join() {
        Ok(Ok(())) => {}
        Ok(Err(e)) => fails.push(("c06:apply-failed".into(), format!("apply failed: {e}"))),
        Err(_) => fails.push(("c09:panic".into(), "the writer panicked".into())),
    }
    if let Some(c) = compactor {
        if c.join().is_err() {
            fails.push(("c09:panic".into(), "compact_range panicked".into()));
        }
    }
    check("after the batch returned", &new, None, &mut fails);
    check("at the snapshot taken while the batch was in flight", &old, Some(snap.clone()), &mut fails);
    db.release_snapshot(snap);
    if let Some(f) = close(db) {
        fails.push(f);
    }
    fails
}

/// leader parked before its WAL append while followers enqueue
fn group_commit(seed: u64) -> Vec<Fail> {
    let mut rng = Prng::new(seed);
    let mut fails = vec![];
    let fs = SimFs::new();
    let cfg = small_cfg(&mut rng);
    let db = match open(&cfg, &fs) {
        Ok(d) => d,
        Err(f) => return vec![f],
    };
    let seq0 = db.verif_state().last_sequence;
    sched::reset();
    let gate = sched::arm("leader", "write:before-wal", 1);
    let d0 = db.clone();
    let leader = std::thread::spawn(move || {
        sched::set_role("leader");
        d0.put(WriteOptions::default(), b"g-leader".to_vec(), b"L".to_vec())
    });
    if !gate.wait_parked(Duration::from_secs(10)) {
        gate.release();
        let _ = leader.join();
        let _ = close(db);
        return vec![("c05:writer-never-reached-point".into(), "leader did not reach write:before-wal".into())];
    }
    let nf = rng.range(2, 6) as usize;
    let mut followers = vec![];
    let mut total_ops = 1u64;
    // value sizes around the group-commit caps (a small first write lets the group grow by 128 KiB,
    // a large one up to 1 MiB in total), and synchronous writers that a non-synchronous leader
    // must not absorb
    let big_mode = rng.chance(2, 3);
    const SIZES: [usize; 7] = [3, 3, 40_000, 70_000, 135_000, 300_000, 1_100_000];
    let mut expect: BTreeMap<Vec<u8>, (usize, u8)> = BTreeMap::new();
    for i in 0..nf {
        let d = db.clone();
        let nops = rng.range(1, 4);
        total_ops += nops;
        let sizes: Vec<usize> = (0..nops).map(|_| if big_mode { SIZES[rng.below(SIZES.len() as u64) as usize] } else { 3 + rng.below(6) as usize }).collect();
        let sync = rng.chance(1, 4);
        for (j, sz) in sizes.iter().enumerate() {
            expect.insert(format!("g-f{i}-{j}").into_bytes(), (*sz, b'a' + (i as u8) * 4 + j as u8));
        }
        followers.push(std::thread::spawn(move || {
            let mut b = Batch::new();
            for (j, sz) in sizes.iter().enumerate() {
                b.add_put(format!("g-f{i}-{j}").into_bytes(), vec![b'a' + (i as u8) * 4 + j as u8; *sz]);
            }
            d.apply(WriteOptions { synchronous: sync }, b)
        }));
        // writers enqueue in the order they were started (so the grouping is a function of the seed)
        let t0 = std::time::Instant::now();
        while db.verif_state().writer_queue_len < i + 2 && t0.elapsed() < Duration::from_secs(5) {
            std::thread::sleep(Duration::from_millis(1));
        }
    }
    let queued = db.verif_state().writer_queue_len;
    gate.release();
    match leader.join() {
        Ok(Ok(())) => {}
        Ok(Err(e)) => fails.push(("c05:write-failed".into(), format!("leader: {e}"))),
        Err(_) => fails.push(("c09:panic".into(), "leader panicked".into())),
    }
    for (i, f) in followers.into_iter().enumerate() {
        match f.join() {
            Ok(Ok(())) => {}
            Ok(Err(e)) => fails.push(("c05:write-failed".into(), format!("follower {i}: {e}"))),
            Err(_) => fails.push(("c09:panic".into(), format!("follower {i} panicked"))),
        }
    }
    let st = db.verif_state();
    if st.last_sequence != seq0 + total_ops {
        fails.push(("c05:sequence-numbers-not-consecutive".into(), format!("{total_ops} operations were acknowledged ({queued} writers queued) but the sequence number advanced by {}", st.last_sequence - seq0)));
    }
    if st.writer_queue_len != 0 {
        fails.push(("c05:writer-queue-not-drained".into(), format!("{} writers left in the queue", st.writer_queue_len)));
    }
    match scan_db(&db, None) {
        Ok(got) => {
            let n = got.iter().filter(|(k, _)| k.starts_with(b"g-")).count() as u64;
            if n != total_ops {
                fails.push(("c05:acknowledged-write-missing-or-duplicated".into(), format!("{total_ops} distinct keys were acknowledged ({queued} writers queued behind a parked leader, value sizes {:?}), the database shows {n}", expect.values().map(|v| v.0).collect::<Vec<_>>())));
            }
            // every follower's batch is visible as a whole or not at all (C06): with all writers
            // acknowledged, each batch must be wholly visible
            for i in 0..nf {
                let want = expect.keys().filter(|k| k.starts_with(format!("g-f{i}-").as_bytes())).count();
                let seen = got.iter().filter(|(k, _)| k.starts_with(format!("g-f{i}-").as_bytes())).count();
                if seen != 0 && seen != want {
                    fails.push(("c06:reader-sees-part-of-a-batch".into(), format!("after a group commit ({queued} writers queued behind a parked leader) a scan sees {seen} of the {want} operations of the batch of writer {i}: part of an acknowledged batch is visible, the rest is not")));
                    break;
                }
            }
            for (k, v) in got.iter() {
                if let Some((sz, byte)) = expect.get(k) {
                    if v.len() != *sz || v.iter().any(|b| b != byte) {
                        fails.push(("c05:acknowledged-write-has-wrong-value".into(), format!("key {} reads back {} bytes, {} were written", hex(k), v.len(), sz)));
                        break;
                    }
                }
            }
        }
        Err(e) => fails.push(("c05:read-error".into(), e)),
    }
    if let Some(f) = close(db) {
        fails.push(f);
    }
    fails
}

/// background thread parked while clients keep working
fn bg_parked(seed: u64) -> Vec<Fail> {
    let mut rng = Prng::new(seed);
    let mut fails = vec![];
    let fs = SimFs::new();
    let cfg = small_cfg(&mut rng);
    let db = match open(&cfg, &fs) {
        Ok(d) => d,
        Err(f) => return vec![f],
    };
    let point = *rng.pick(&["bg:building-table", "bg:manifest-write", "bg:before-delete", "bg:compact-loop"]);
    sched::reset();
    let gate = sched::arm("bg", point, rng.range(1, 3) as u32);
    let mut oracle: BTreeMap<Vec<u8>, Vec<u8>> = BTreeMap::new();
    // writes until the background thread gets work and parks
    let mut i = 0u32;
    while !gate.was_hit() && i < 400 {
        let k = format!("w{:04}", rng.below(60)).into_bytes();
        let v = vec![b'a' + (i % 26) as u8; rng.range(10, 80) as usize];
        // a writer may legitimately block while the background thread is parked (memtable full
        // and the previous one still being flushed): write from a helper thread with a deadline
        let (d, k2, v2) = (db.clone(), k.clone(), v.clone());
        let h = std::thread::spawn(move || d.put(WriteOptions::default(), k2, v2));
        let t0 = std::time::Instant::now();
        while !h.is_finished() && t0.elapsed() < Duration::from_millis(300) {
            std::thread::sleep(Duration::from_micros(200));
        }
        if !h.is_finished() {
            // blocked behind the parked background thread: release and let it finish
            gate.release();
        }
        match h.join() {
            Ok(Ok(())) => {
                oracle.insert(k, v);
            }
            Ok(Err(e)) => fails.push(("c05:write-failed".into(), format!("{e}"))),
            Err(_) => fails.push(("c09:panic".into(), "writer panicked".into())),
        }
        i += 1;
        if i == 150 && rng.chance(1, 2) {
            let d = db.clone();
            std::thread::spawn(move || d.compact_range(None..None));
        }
    }
    // with the background thread parked: reads must work and be right
    for (k, v) in oracle.iter().take(40) {
        match db.get(ReadOptions::default(), k) {
            Ok(g) if &g == v => {}
            Ok(g) => fails.push(("c05:stale-read-while-background-parked".into(), format!("get({}) returned {} bytes, expected {} (background thread parked at {point})", hex(k), g.len(), v.len()))),
            Err(e) => fails.push(("c05:read-fails-while-background-parked".into(), format!("get({}) failed: {e} (background thread parked at {point})", hex(k)))),
        }
    }
    match scan_db(&db, None) {
        Ok(got) => {
            let m: BTreeMap<Vec<u8>, Vec<u8>> = got.into_iter().collect();
            if m != oracle {
                fails.push(("c05:scan-wrong-while-background-parked".into(), format!("scan differs from the acknowledged contents (background thread parked at {point})")));
            }
        }
        Err(e) => fails.push(("c05:read-error".into(), e)),
    }
    gate.release();
    if !db.verif_wait_idle(Duration::from_secs(20)) {
        fails.push(("c09:background-work-never-finishes".into(), format!("after parking at {point} and releasing, background work does not quiesce")));
    }
    for (k, v) in oracle.iter() {
        match db.get(ReadOptions::default(), k) {
            Ok(g) if &g == v => {}
            other => {
                fails.push(("c05:wrong-after-background-resumed".into(), format!("get({}) = {:?}, expected {} bytes", hex(k), other.map(|x| x.len()), v.len())));
                break;
            }
        }
    }
    if let Some(f) = close(db) {
        fails.push(f);
    }
    fails
}

/// unscheduled stress, one writer per key, per-key register check
fn stress(seed: u64) -> Vec<Fail> {
    stress_with(seed, false)
}

/// the same with a memtable that never rotates: thousands of entries in one skip list, many
/// readers walking it while the writers link new nodes
fn stress_mem(seed: u64) -> Vec<Fail> {
    stress_with(seed, true)
}

/// One hot key that is overwritten all the time, many small keys sorting before it inserted in
/// between (so that freshly linked skip-list nodes lie on the path to the hot key in a short,
/// frequently rotated memtable), readers that get the hot key in a tight loop: a get that starts
/// after put #i was acknowledged must see version >= i, never more than the last put started, and a
/// reader never goes backwards.
fn hot_key(seed: u64) -> Vec<Fail> {
    let mut rng = Prng::new(seed);
    let mut fails = vec![];
    let fs = SimFs::new();
    let mut cfg = small_cfg(&mut rng);
    cfg.memtable = *rng.pick(&[512usize, 1024, 2048, 4096, 16384]);
    let db = match open(&cfg, &fs) {
        Ok(d) => d,
        Err(f) => return vec![f],
    };
    sched::reset();
    let nreaders = rng.range(3, 7) as usize;
    let fillers = rng.range(1, 6);
    let rounds = rng.range(800, 2500);
    let hot: Vec<u8> = rng.pick(&[b"z-hot".to_vec(), b"m".to_vec(), vec![0xff, 0xff]]).clone();
    let acked = Arc::new(AtomicU64::new(0));
    let started = Arc::new(AtomicU64::new(0));
    let done = Arc::new(std::sync::atomic::AtomicBool::new(false));
    let bad: Arc<parking_lot::Mutex<Vec<Fail>>> = Arc::new(parking_lot::Mutex::new(vec![]));
    let mut hs = vec![];
    for t in 0..nreaders {
        let (db, acked, started, done, bad, hot) = (db.clone(), acked.clone(), started.clone(), done.clone(), bad.clone(), hot.clone());
        hs.push(std::thread::spawn(move || {
            let mut last = 0u64;
            let mut n = 0u64;
            while !done.load(Ordering::SeqCst) {
                let floor = acked.load(Ordering::SeqCst);
                let got = db.get(ReadOptions::default(), &hot);
                let ceil = started.load(Ordering::SeqCst);
                let v = match got {
                    Ok(v) if v.len() >= 8 => u64::from_le_bytes(v[..8].try_into().unwrap()),
                    Err(raindb::RainDBError::KeyNotFound) => 0,
                    Ok(_) | Err(_) => {
                        bad.lock().push(("c05:read-error".into(), format!("reader {t}: get of the hot key failed or returned a malformed value")));
                        return n;
                    }
                };
                n += 1;
                if v < floor {
                    bad.lock().push(("c05:stale-read-after-acknowledged-write".into(), format!("reader {t}: put #{floor} of the hot key had been acknowledged before this get started, the get returned version {v}{}", if v == 0 { " (KeyNotFound)" } else { "" })));
                    return n;
                }
                if v > ceil {
                    bad.lock().push(("c05:read-from-the-future".into(), format!("reader {t}: the get returned version {v} but only {ceil} puts had been started when it returned")));
                    return n;
                }
                if v < last {
                    bad.lock().push(("c05:reads-go-backwards".into(), format!("reader {t}: an earlier get saw version {last}, a later one version {v}")));
                    return n;
                }
                last = v;
            }
            n
        }));
    }
    let mut werr = None;
    let mut fill_no = 0u64;
    for i in 1..=rounds {
        started.store(i, Ordering::SeqCst);
        let mut v = i.to_le_bytes().to_vec();
        v.resize(8 + (i % 24) as usize, b'h');
        if let Err(e) = db.put(WriteOptions::default(), hot.clone(), v) {
            werr = Some(format!("{e}"));
            break;
        }
        acked.store(i, Ordering::SeqCst);
        for _ in 0..fillers {
            fill_no += 1;
            if db.put(WriteOptions::default(), format!("a{:03}", fill_no % 150).into_bytes(), vec![b'f'; (fill_no % 17) as usize]).is_err() {
                break;
            }
        }
        if !bad.lock().is_empty() {
            break;
        }
    }
    done.store(true, Ordering::SeqCst);
    let mut reads = 0u64;
    for h in hs {
        match h.join() {
            Ok(n) => reads += n,
            Err(_) => fails.push(("c09:panic".into(), "a reader thread panicked".into())),
        }
    }
    if let Some(e) = werr {
        fails.push(("c05:write-failed".into(), e));
    }
    if reads == 0 {
        fails.push(("c05:no-reads".into(), "the readers never completed a get".into()));
    }
    fails.extend(bad.lock().drain(..));
    if let Some(f) = close(db) {
        fails.push(f);
    }
    fails
}

fn stress_with(seed: u64, big: bool) -> Vec<Fail> {
    let mut rng = Prng::new(seed);
    let mut fails = vec![];
    let fs = SimFs::new();
    let mut cfg = small_cfg(&mut rng);
    if big {
        cfg.memtable = 4 << 20;
    }
    let db = match open(&cfg, &fs) {
        Ok(d) => d,
        Err(f) => return vec![f],
    };
    sched::reset();
    let nthreads = if big { rng.range(6, 10) as usize } else { rng.range(3, 8) as usize };
    let nkeys_per = if big { 24usize } else { 3usize };
    let write_pct: u64 = if big { 30 } else { 50 };
    let clock = Arc::new(AtomicU64::new(1));
    // per key: log of (start, end, version) of writes, filled by its writer; version 0 = absent
    type WLog = Vec<(u64, u64, u64)>;
    let wlogs: Arc<Vec<parking_lot::Mutex<WLog>>> = Arc::new((0..nthreads * nkeys_per).map(|_| parking_lot::Mutex::new(vec![])).collect());
    // reads: (key idx, start, end, observed version, thread)
    let reads: Arc<parking_lot::Mutex<Vec<(usize, u64, u64, u64, usize)>>> = Arc::new(parking_lot::Mutex::new(vec![]));
    let nops = if big { rng.range(1500, 4000) } else { rng.range(150, 500) };
    let mut hs = vec![];
    for t in 0..nthreads {
        let (db, clock, wlogs, reads) = (db.clone(), clock.clone(), wlogs.clone(), reads.clone());
        let tseed = rng.next();
        hs.push(std::thread::spawn(move || {
            let mut r = Prng::new(tseed);
            let mut version = vec![0u64; nkeys_per];
            for _ in 0..nops {
                if r.below(100) < write_pct {
                    // write one of my keys
                    let j = r.below(nkeys_per as u64) as usize;
                    let ki = t * nkeys_per + j;
                    let key = format!("s{:03}", ki).into_bytes();
                    version[j] += 1;
                    let ver = version[j];
                    let del = r.chance(1, 6);
                    let s = clock.fetch_add(1, Ordering::SeqCst);
                    let res = if del {
                        db.delete(WriteOptions::default(), key)
                    } else {
                        let mut v = ver.to_le_bytes().to_vec();
                        v.resize(8 + r.below(60) as usize, b'x');
                        db.put(WriteOptions::default(), key, v)
                    };
                    let e = clock.fetch_add(1, Ordering::SeqCst);
                    if res.is_ok() {
                        // a delete is recorded as version with the high bit set
                        wlogs[ki].lock().push((s, e, if del { ver | (1 << 63) } else { ver }));
                    }
                } else {
                    let ki = r.below((wlogs.len()) as u64) as usize;
                    let key = format!("s{:03}", ki).into_bytes();
                    let s = clock.fetch_add(1, Ordering::SeqCst);
                    let got = db.get(ReadOptions::default(), &key);
                    let e = clock.fetch_add(1, Ordering::SeqCst);
                    let obs = match got {
                        Ok(v) if v.len() >= 8 => u64::from_le_bytes(v[..8].try_into().unwrap()),
                        Ok(_) => u64::MAX,
                        Err(raindb::RainDBError::KeyNotFound) => 0,
                        Err(_) => u64::MAX - 1,
                    };
                    reads.lock().push((ki, s, e, obs, t));
                }
            }
        }));
    }
    // a maintenance client: manual compactions of the whole range while the others read and write
    if rng.chance(1, 2) {
        let db = db.clone();
        let n = rng.range(1, 4);
        let gap = rng.range(0, 8);
        hs.push(std::thread::spawn(move || {
            for _ in 0..n {
                std::thread::sleep(Duration::from_millis(gap));
                db.compact_range(None..None);
            }
        }));
    }
    for h in hs {
        if h.join().is_err() {
            fails.push(("c09:panic".into(), "a stress thread panicked".into()));
        }
    }
    // check every read
    let reads = reads.lock().clone();
    let mut last_seen: BTreeMap<(usize, usize), u64> = BTreeMap::new();
    for (ki, s, e, obs, t) in reads {
        let wl = wlogs[ki].lock().clone();
        if obs == u64::MAX - 1 {
            fails.push(("c05:read-error".into(), format!("get of key {ki} failed")));
            break;
        }
        // the last write that completed before the read started
        let floor_idx = wl.iter().rposition(|w| w.1 < s);
        // candidate writes: floor .. every write that started before the read ended
        let lo = floor_idx.unwrap_or(0);
        let mut ok = false;
        if floor_idx.is_none() && obs == 0 {
            ok = true;
        }
        // every write (by 1-based index; 0 = the initial absence) that explains the observation
        let mut explains: Vec<usize> = if obs == 0 && floor_idx.is_none() { vec![0] } else { vec![] };
        for (wi, w) in wl.iter().enumerate().skip(lo) {
            if w.0 > e {
                break;
            }
            let is_del = w.2 >> 63 == 1;
            let ver = w.2 & !(1 << 63);
            if (is_del && obs == 0) || (!is_del && obs == ver) {
                ok = true;
                explains.push(wi + 1);
            }
        }
        // versions of puts are unique, but "absent" can be explained by ANY delete among the
        // candidates. For the never-backwards check the choice is existential: take the earliest
        // explanation that is not before what this thread has already seen (greedy is optimal for
        // a monotone chain). Fixed choices raised two false alarms: the earliest (delete #17, put #18
        // seen by the first read, delete #19 in flight during the second) and the latest (first read
        // overlaps delete #36, put #37 and delete #38 and sees absence; the second overlaps #38 and
        // sees #37).
        let prev_seen = *last_seen.get(&(t, ki)).unwrap_or(&0);
        let order_of_obs: Option<usize> = explains.iter().copied().find(|o| *o as u64 >= prev_seen).or(explains.last().copied());
        if !ok {
            fails.push((
                "c05:read-not-linearizable".into(),
                format!("key {ki}: a get running during [{s},{e}] observed version {obs}; the writes to this key that overlap or precede it do not include such a value (last completed before the read: {:?})", floor_idx.map(|i| wl[i])),
            ));
            break;
        }
        if let Some(o) = order_of_obs {
            let prev = last_seen.entry((t, ki)).or_insert(0);
            if (o as u64) < *prev {
                // where the versions of this key live now (diagnosis: a newer version below an older one?)
                let key = format!("s{:03}", ki).into_bytes();
                let st = db.verif_state();
                let mut places: Vec<String> = vec![];
                let show = |e: &raindb::verif::Entry| format!("seq{}{}", e.1, if e.2 == 1 { format!("=v{}", if e.3.len() >= 8 { u64::from_le_bytes(e.3[..8].try_into().unwrap()) } else { 0 }) } else { "=del".into() });
                for e in st.mem.iter().filter(|e| e.0 == key) {
                    places.push(format!("mem:{}", show(e)));
                }
                if let Some(imm) = &st.imm {
                    for e in imm.iter().filter(|e| e.0 == key) {
                        places.push(format!("imm:{}", show(e)));
                    }
                }
                for (lvl, files) in st.levels.iter().enumerate() {
                    for f in files {
                        if let Ok(es) = db.verif_table_entries(f.number) {
                            for e in es.iter().filter(|e| e.0 == key) {
                                places.push(format!("L{lvl}#{}:{}", f.number, show(e)));
                            }
                        }
                    }
                }
                fails.push(("c05:reads-go-backwards".into(), format!("thread {t} read key {ki}: an earlier read [.., ..] saw write #{} and a later read [{s},{e}] saw write #{o} (obs {obs}); writes of the key {:?}; the key's entries at the end: {}", *prev, wl.iter().map(|w| (w.0, w.1, w.2 & !(1 << 63), w.2 >> 63)).collect::<Vec<_>>(), places.join(" "))));
                break;
            }
            *prev = o as u64;
        }
    }
    if let Some(f) = close(db) {
        fails.push(f);
    }
    fails
}

pub fn rule() -> &'static str {
    "directed schedules forced through the scheduling hooks of the real code (a get parked after releasing the mutex / before reading tables while rotation, flush, compaction and file deletion complete; a multi-key batch writer parked before the WAL append, after it, after every single memtable insertion and after all of them while readers get, scan and take snapshots; a group-commit leader parked while followers queue; the background thread parked while building a table, before the manifest write, before deleting files and inside the compaction loop while clients read and write) over seeds that draw configuration, key kinds, placement of the key (memtable / table / both), fill volume and occurrence; plus unscheduled stress with 3-8 threads and a per-key register linearizability check. Non-trivial = the scenario reached its park point (or, for stress, ran to completion); distinct by (scenario, seed)."
}

pub fn run(tier: &str, seed: u64, replay: Option<&str>, shard: Option<ShardArgs>, only: Option<&str>, drv_path: &str, corpus_dir: &str) -> Report {
    crate::lsm::install_panic_hook();
    let _ = DRV_PATH.set(drv_path.to_string());
    sched::init();
    let mut rep = Report::new("c05", rule());
    let thorough = tier == "thorough";
    let scenarios: Vec<(&str, fn(u64) -> Vec<Fail>, u64)> = vec![
        ("get-parked", get_parked, if thorough { 600 } else { 60 }),
        ("batch-parked", batch_parked, if thorough { 800 } else { 90 }),
        ("group-commit", group_commit, if thorough { 200 } else { 24 }),
        ("bg-parked", bg_parked, if thorough { 300 } else { 32 }),
        ("stress", stress, if thorough { 400 } else { 48 }),
        ("stress-mem", stress_mem, if thorough { 100 } else { 8 }),
        ("hot-key", hot_key, if thorough { 600 } else { 64 }),
    ];
    let run_one = |name: &str, f: fn(u64) -> Vec<Fail>, s: u64, rep: &mut Report| {
        let line = format!("c05 scenario={name} seed={s}");
        let _ = crate::lsm::PANICS.lock().map(|mut g| g.clear());
        let r = with_deadline(90, move || f(s));
        let panics = crate::lsm::PANICS.lock().map(|mut g| std::mem::take(&mut *g)).unwrap_or_default();
        rep.case(&line, true);
        rep.count(&format!("c05.scenario.{name}"));
        match r {
            None => rep.fail("hang", "c09:operation-hangs", &format!("scenario {name} did not finish within 90 s"), &line),
            Some(fails) => {
                for (sig, what) in fails {
                    rep.fail("oracle", &sig, &what, &line);
                }
            }
        }
        for (thread, msg) in panics {
            if thread.starts_with("raindb-") {
                rep.fail("oracle", "c09:background-thread-panicked", &format!("the compaction thread panicked: {}", msg.chars().take(300).collect::<String>()), &line);
            }
        }
    };
    if let Some(line) = replay {
        let get = |name: &str| line.split_whitespace().find_map(|t| t.strip_prefix(&format!("{name}="))).map(|s| s.to_string());
        if let (Some(n), Some(s)) = (get("scenario"), get("seed").and_then(|s| s.parse::<u64>().ok())) {
            if let Some((name, f, _)) = scenarios.iter().find(|x| x.0 == n) {
                // unscheduled stress is not deterministic: repeat it
                let reps = get("repeat").and_then(|s| s.parse::<u64>().ok()).unwrap_or(if name.starts_with("stress") || *name == "hot-key" { 12 } else { 1 });
                for _ in 0..reps {
                    run_one(name, *f, s, &mut rep);
                    if !rep.failures.is_empty() {
                        break;
                    }
                }
                return rep;
            }
        }
        rep.fail("oracle", "c05:bad-replay", "cannot parse replay case", line);
        return rep;
    }
    let mut rng = Prng::new(seed ^ 0xC05);
    let (idx, cnt) = shard.as_ref().map_or((0, 1), |s| (s.index, s.count));
    let shard_opt = shard;
    let mut j = 0usize;
    // minimized past failures first
    let mut corpus_lines: Vec<String> = vec![];
    if let Ok(rd) = std::fs::read_dir(corpus_dir) {
        let mut paths: Vec<_> = rd.flatten().map(|e| e.path()).collect();
        paths.sort();
        for p in paths {
            if let Ok(txt) = std::fs::read_to_string(&p) {
                corpus_lines.extend(txt.lines().filter(|l| l.starts_with("c05 ")).map(|l| l.to_string()));
            }
        }
    }
    for line in corpus_lines {
        let get = |name: &str| line.split_whitespace().find_map(|t| t.strip_prefix(&format!("{name}="))).map(|s| s.to_string());
        let (Some(n), Some(s)) = (get("scenario"), get("seed").and_then(|s| s.parse::<u64>().ok())) else { continue };
        let Some((name, f, _)) = scenarios.iter().find(|x| x.0 == n) else { continue };
        if let Some(o) = only {
            if !o.split(',').any(|x| x == *name) {
                continue;
            }
        }
        let reps = get("repeat").and_then(|s| s.parse::<u64>().ok()).unwrap_or(1);
        for _ in 0..reps {
            j += 1;
            if j % cnt != idx {
                continue;
            }
            rep.count("c05.corpus-cases");
            run_one(name, *f, s, &mut rep);
        }
    }
    for (name, f, n) in scenarios.iter() {
        for _ in 0..*n {
            let s = rng.next() % 1_000_000_000;
            j += 1;
            if j % cnt != idx {
                continue;
            }
            if let Some(o) = only {
                if !o.split(',').any(|x| x == *name) {
                    continue;
                }
            }
            note_progress(&shard_opt, &format!("c05 scenario={name} seed={s}"));
            run_one(name, *f, s, &mut rep);
        }
    }
    for d in DRIFT.lock().drain(..) {
        rep.drift.push(d);
        rep.count("model_drift");
    }
    rep.model_requests = MODEL_REQUESTS.load(Ordering::SeqCst);
    rep.add("c05.group-commits-with-queued-writers-checked", GROUPS_CHECKED.load(Ordering::SeqCst));
    rep.add("c05.group-commits-cut-before-the-end-of-the-queue", GROUPS_CUT.load(Ordering::SeqCst));
    for _ in 0..COMPACT_DURING_BATCH.load(Ordering::SeqCst) {
        rep.count("c06.manual-compaction-requested-during-batch");
    }
    rep
}
