//! One PRNG state per run: every random choice of a run derives from it, so a case replays exactly.

#[derive(Clone, Debug)]
pub struct Prng(pub u64);

impl Prng {
    pub fn new(seed: u64) -> Self {
        // splitmix to avoid the all-zero state
        let mut z = seed.wrapping_add(0x9E3779B97F4A7C15);
        z = (z ^ (z >> 30)).wrapping_mul(0xBF58476D1CE4E5B9);
        z = (z ^ (z >> 27)).wrapping_mul(0x94D049BB133111EB);
        Prng((z ^ (z >> 31)) | 1)
    }
    pub fn next(&mut self) -> u64 {
        let mut x = self.0;
        x ^= x >> 12;
        x ^= x << 25;
        x ^= x >> 27;
        self.0 = x;
        x.wrapping_mul(0x2545F4914F6CDD1D)
    }
    /// uniform in [0, n)
    pub fn below(&mut self, n: u64) -> u64 {
        if n == 0 { 0 } else { self.next() % n }
    }
    pub fn range(&mut self, lo: u64, hi_incl: u64) -> u64 {
        lo + self.below(hi_incl - lo + 1)
    }
    pub fn chance(&mut self, num: u64, den: u64) -> bool {
        self.below(den) < num
    }
    pub fn pick<'a, T>(&mut self, xs: &'a [T]) -> &'a T {
        &xs[self.below(xs.len() as u64) as usize]
    }
    pub fn bytes(&mut self, n: usize) -> Vec<u8> {
        (0..n).map(|_| self.next() as u8).collect()
    }
    pub fn fork(&mut self) -> Prng {
        Prng::new(self.next())
    }
}
