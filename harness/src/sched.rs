//! Deterministic scheduling through the `raindb::verif::sched` hook points: a thread with a given
//! role can be parked at a named point (n-th occurrence) until the test driver releases it.

use parking_lot::{Condvar, Mutex};
use std::cell::RefCell;
use std::sync::Arc;
use std::time::{Duration, Instant};

pub struct Gate {
    role: String,
    point: String,
    occurrence: u32,
    state: Mutex<GateState>,
    cv: Condvar,
}

#[derive(Default)]
struct GateState {
    seen: u32,
    parked: bool,
    released: bool,
    passed: bool,
}

impl Gate {
    /// wait until a thread is parked at this gate
    pub fn wait_parked(&self, timeout: Duration) -> bool {
        let deadline = Instant::now() + timeout;
        let mut g = self.state.lock();
        while !g.parked && !g.passed {
            if self.cv.wait_until(&mut g, deadline).timed_out() {
                return g.parked;
            }
        }
        g.parked
    }
    pub fn release(&self) {
        let mut g = self.state.lock();
        g.released = true;
        self.cv.notify_all();
    }
    pub fn was_hit(&self) -> bool {
        let g = self.state.lock();
        g.parked || g.passed
    }
}

static GATES: Mutex<Vec<Arc<Gate>>> = Mutex::new(Vec::new());
static TRACE: Mutex<Vec<(String, String)>> = Mutex::new(Vec::new());

thread_local! {
    static ROLE: RefCell<Option<String>> = const { RefCell::new(None) };
}

pub fn set_role(role: &str) {
    ROLE.with(|r| *r.borrow_mut() = Some(role.to_string()));
}

fn current_role() -> String {
    if let Some(r) = ROLE.with(|r| r.borrow().clone()) {
        return r;
    }
    match std::thread::current().name() {
        Some(n) if n.starts_with("raindb-") => "bg".to_string(),
        Some(n) => n.to_string(),
        None => "?".to_string(),
    }
}

fn hook(_db: &str, point: &'static str) {
    let role = current_role();
    {
        let mut t = TRACE.lock();
        if t.len() < 10_000 {
            t.push((role.clone(), point.to_string()));
        }
    }
    let gate = {
        let gates = GATES.lock();
        gates.iter().find(|g| g.role == role && g.point == point && !g.state.lock().passed && !g.state.lock().parked).cloned()
    };
    if let Some(g) = gate {
        let mut st = g.state.lock();
        st.seen += 1;
        if st.seen < g.occurrence {
            return;
        }
        st.parked = true;
        g.cv.notify_all();
        let deadline = Instant::now() + Duration::from_secs(30);
        while !st.released {
            if g.cv.wait_until(&mut st, deadline).timed_out() {
                break;
            }
        }
        st.parked = false;
        st.passed = true;
        g.cv.notify_all();
    }
}

pub fn init() {
    raindb::verif::sched::install(Some(Arc::new(hook)));
}

/// clear all gates and the trace (between scenarios)
pub fn reset() {
    for g in GATES.lock().drain(..) {
        g.release();
    }
    TRACE.lock().clear();
}

pub fn arm(role: &str, point: &str, occurrence: u32) -> Arc<Gate> {
    let g = Arc::new(Gate { role: role.to_string(), point: point.to_string(), occurrence: occurrence.max(1), state: Mutex::new(GateState::default()), cv: Condvar::new() });
    GATES.lock().push(g.clone());
    g
}

pub fn trace() -> Vec<(String, String)> {
    TRACE.lock().clone()
}
