//! Which compaction is run: the real `Version::finalize` (level scores) and
//! `VersionSet::pick_compaction` (seed file after the compaction pointer, level-0 closure, input
//! expansion) on synthetic versions against the Lean model (`Rain/Score.lean`, which reuses
//! `Rain/Pick.lean`), with the model's parameters regenerated from /repo's sources
//! (`score.params`). `Rain/Props/Score.lean` proves that with these parameters a size compaction is
//! never asked of the last level or of an empty level (the two panics of `pick_compaction`) and
//! that what is picked satisfies the input clauses of `validCompaction`.

use std::collections::BTreeMap;

use raindb::verif::FileDump;
use raindb::DbOptions;

use crate::drv::{hex, Drv};
use crate::prng::Prng;
use crate::report::Report;

fn nums(v: &[u64]) -> String {
    if v.is_empty() {
        "_".to_string()
    } else {
        v.iter().map(|n| n.to_string()).collect::<Vec<_>>().join(",")
    }
}
fn sorted(mut v: Vec<u64>) -> Vec<u64> {
    v.sort_unstable();
    v
}

type IKey = (Vec<u8>, u64, u8);

/// a layout over all seven levels with sizes placed around the level limits
fn gen_case(rng: &mut Prng, level_one: u64, l0_trigger: u64) -> (Vec<Vec<FileDump>>, Vec<Option<IKey>>) {
    let mut levels = crate::pick::gen_layout_deep(rng, 7);
    // level 0: sometimes many more files (scores 2, 3 from the integer division)
    if rng.chance(1, 3) {
        let extra = rng.range(1, 3 * l0_trigger);
        let mut next = levels.iter().flatten().map(|f| f.number).max().unwrap_or(9) + 1;
        for _ in 0..extra {
            let a = rng.below(40);
            let b = a + rng.below(12);
            let key = |i: u64| format!("k{:03}", i).into_bytes();
            let (s1, s2) = (rng.range(1, 1000), rng.range(1, 1000));
            let (hi, lo) = if a == b { (s1.max(s2), s1.min(s2)) } else { (s1, s2) };
            levels[0].push(FileDump { number: next, size: rng.range(1, 400), smallest: (key(a), hi, 1), largest: (key(b), lo, 1), allowed_seeks: 100 });
            next += 1;
        }
    }
    // deeper levels: the level's total = k/64 of its limit (exact in f64), or one byte off the limit
    let mut limit = level_one as u128;
    // a quarter of the cases: every deeper level below its limit
    let calm = rng.chance(1, 4);
    for l in 1..7 {
        if l > 1 {
            limit *= 10;
        }
        let n = levels[l].len() as u128;
        if n == 0 {
            continue;
        }
        let k = *rng.pick(&[0u128, 1, 20, 63, 64, 64, 65, 100, 128, 128, 640, 6400]);
        let mut total = limit * k / 64;
        match rng.below(8) {
            0 => total = limit.saturating_sub(1),
            1 => total = limit + 1,
            2 => total = limit,
            _ => {}
        }
        if calm && total >= limit {
            total = limit * rng.range(0, 63) as u128 / 64;
        }
        let total = total.max(n).min(u64::MAX as u128 / 4);
        for (i, f) in levels[l].iter_mut().enumerate() {
            f.size = if i == 0 { (total - (n - 1)) as u64 } else { 1 };
        }
    }
    let mut pointers: Vec<Option<IKey>> = vec![None; 7];
    for l in 0..7 {
        if levels[l].is_empty() || rng.chance(1, 2) {
            continue;
        }
        let f = rng.pick(&levels[l]).clone();
        pointers[l] = Some(match rng.below(5) {
            0 => f.largest.clone(),
            1 => (f.largest.0.clone(), f.largest.1 + 1, 1),
            2 => (f.largest.0.clone(), f.largest.1.saturating_sub(1), 1),
            3 => f.smallest.clone(),
            _ => (format!("k{:03}", rng.below(60)).into_bytes(), rng.range(1, 1000), 1),
        });
    }
    (levels, pointers)
}

fn check_case(s: u64, drv: &mut Drv, rep: &mut Report, params: &(u64, u64, u64)) {
    let mut rng = Prng::new(s);
    let (l0_trigger, default_level_one, scored) = *params;
    // the level-1 limit: the built-in one, or scaled down through the instrumentation hook
    let level_one_override: u64 = *rng.pick(&[0u64, 0, 0, 1, 1000, 4096]);
    let level_one = if level_one_override == 0 { default_level_one } else { level_one_override };
    let (levels, pointers) = gen_case(&mut rng, level_one, l0_trigger);
    if !crate::pick::well_formed(&levels) {
        rep.count("score.skipped");
        return;
    }
    let max_file_size = *rng.pick(&[1u64, 8, 40, 200, 2_000_000]);
    let ltok = crate::dbsim::levels_tok(&levels, &BTreeMap::new());
    let sizes: Vec<String> = levels.iter().flatten().map(|f| format!("{}={}", f.number, f.size)).collect();
    let stok = if sizes.is_empty() { "_".to_string() } else { sizes.join(",") };
    let ptok = pointers.iter().map(|p| p.as_ref().map_or("*".to_string(), |k| format!("{}/{}", hex(&k.0), k.1))).collect::<Vec<_>>().join(";");
    let stats = levels.iter().map(|l| format!("{}:{}", l.len(), l.iter().map(|f| f.size as u128).sum::<u128>())).collect::<Vec<_>>().join(",");
    let case = format!("score gen={s} level-one={level_one} max={max_file_size} pointers={ptok} stats={stats} levels={ltok}");
    rep.case(&case, levels.iter().flatten().count() >= 2);
    {
        let last: u128 = levels[6].iter().map(|f| f.size as u128).sum();
        if last >= level_one as u128 * 100_000 {
            rep.count("score.last-level-at-or-over-its-limit");
        }
    }
    static BASE: std::sync::OnceLock<DbOptions> = std::sync::OnceLock::new();
    let opts = DbOptions { max_file_size, ..BASE.get_or_init(DbOptions::with_memory_env).clone() };
    raindb::verif::set_level_one_max_bytes(level_one_override);
    let real = std::panic::catch_unwind(std::panic::AssertUnwindSafe(|| raindb::verif::pick_compaction_probe(&opts, &levels, &pointers)));
    raindb::verif::set_level_one_max_bytes(0);
    let model_fin = drv.ask(&format!("score.finalize {l0_trigger} {level_one} {scored} {stats}"));
    let model_pick = drv.ask(&format!("score.pick {l0_trigger} {level_one} {scored} {max_file_size} {ptok} {ltok} {stok}"));
    rep.model_requests += 2;
    let (level, needs, picked) = match real {
        Err(_) => {
            rep.count("score.real.panic");
            rep.fail(
                "oracle",
                "c09:pick-compaction-panics",
                &format!("pick_compaction panicked on a well-formed version (per level count:bytes = {stats}, level-1 limit {level_one}); the model answers [{model_fin}] / [{model_pick}]: the compaction thread dies and writers waiting for it block forever"),
                &case,
            );
            return;
        }
        Ok(Err(_)) => {
            rep.count("score.skipped");
            return;
        }
        Ok(Ok(r)) => r,
    };
    if model_fin == "no-model" || model_pick == "no-model" {
        rep.drift.push(format!("the scoring model rejects the request :: {case}"));
        rep.count("model_drift");
        return;
    }
    let real_fin = format!("{level} {}", if needs { 1 } else { 0 });
    rep.count(&format!("score.best-level.{level}"));
    rep.count(if needs { "score.size-compaction-needed" } else { "score.no-size-compaction" });
    if model_fin != real_fin {
        rep.drift.push(format!("level scoring differs: Version::finalize says [level {level}, size compaction {needs}], the model [{model_fin}] (count:bytes per level {stats}, level-1 limit {level_one}) :: {case}"));
        rep.count("model_drift");
        return;
    }
    let real_pick = match &picked {
        None => "none".to_string(),
        Some((l, a, b)) => format!("picked {l} {} {}", nums(&sorted(a.clone())), nums(&sorted(b.clone()))),
    };
    let model_norm = {
        let t: Vec<&str> = model_pick.split(' ').collect();
        if t.len() == 4 && t[0] == "picked" {
            let p = |s: &str| -> Vec<u64> { if s == "_" { vec![] } else { s.split(',').filter_map(|x| x.parse().ok()).collect() } };
            format!("picked {} {} {}", t[1], nums(&sorted(p(t[2]))), nums(&sorted(p(t[3]))))
        } else {
            model_pick.clone()
        }
    };
    if model_norm != real_pick {
        rep.drift.push(format!("pick_compaction differs: implementation [{real_pick}], model [{model_norm}] :: {case}"));
        rep.count("model_drift");
        return;
    }
    if let Some((l, a, b)) = &picked {
        rep.count(&format!("score.picked.level.{l}"));
        if pointers[*l].is_some() {
            rep.count("score.picked.with-pointer");
        }
        if a.is_empty() {
            rep.fail("oracle", "c09:size-compaction-without-inputs", &format!("pick_compaction returned a compaction of level {l} with no input file"), &case);
            return;
        }
        if l + 1 >= 7 {
            rep.fail("oracle", "c09:size-compaction-of-the-last-level", &format!("pick_compaction returned a compaction of level {l}, which has no next level"), &case);
            return;
        }
        let valid = drv.ask(&format!("pick.valid {ltok} {l} {} {}", nums(a), nums(b)));
        rep.model_requests += 1;
        if valid != "true" {
            rep.fail("oracle", "c07:selected-compaction-inputs-invalid", &format!("the inputs pick_compaction selected for level {l} (level files {a:?}, next-level files {b:?}) do not satisfy the input clauses of the model's validCompaction (answer: {valid})"), &case);
            return;
        }
    }
    // the whole pick_compaction with a recorded seek compaction: a file of a level that has a next
    // level (what the seek-charging theorems guarantee of file_to_compact)
    let candidates: Vec<(usize, u64)> = levels.iter().enumerate().take(6).flat_map(|(l, fs)| fs.iter().map(move |f| (l, f.number))).collect();
    if candidates.is_empty() || rng.chance(1, 4) {
        return;
    }
    let seek = *rng.pick(&candidates);
    let case = format!("{case} seek={}/{}", seek.0, seek.1);
    raindb::verif::set_level_one_max_bytes(level_one_override);
    let real = std::panic::catch_unwind(std::panic::AssertUnwindSafe(|| raindb::verif::pick_compaction_probe_with_seek(&opts, &levels, &pointers, Some(seek))));
    raindb::verif::set_level_one_max_bytes(0);
    let model_any = drv.ask(&format!("score.pickany {l0_trigger} {level_one} {scored} {max_file_size} {ptok} {ltok} {stok} {}/{}", seek.0, seek.1));
    rep.model_requests += 1;
    let picked_any = match real {
        Err(_) => {
            rep.fail("oracle", "c09:pick-compaction-panics", &format!("pick_compaction panicked on a well-formed version whose recorded seek compaction is file {} of level {} (the model answers [{model_any}]): the compaction thread dies", seek.1, seek.0), &case);
            return;
        }
        Ok(Err(_)) => return,
        Ok(Ok(r)) => r,
    };
    let real_any = match &picked_any {
        None => "none".to_string(),
        Some((l, a, b)) => format!("picked {l} {} {}", nums(&sorted(a.clone())), nums(&sorted(b.clone()))),
    };
    let model_any_norm = {
        let t: Vec<&str> = model_any.split(' ').collect();
        if t.len() == 4 && t[0] == "picked" {
            let p = |s: &str| -> Vec<u64> { if s == "_" { vec![] } else { s.split(',').filter_map(|x| x.parse().ok()).collect() } };
            format!("picked {} {} {}", t[1], nums(&sorted(p(t[2]))), nums(&sorted(p(t[3]))))
        } else {
            model_any.clone()
        }
    };
    rep.count(if needs { "score.seek.displaced-by-size-compaction" } else { "score.seek.branch-taken" });
    if !needs {
        rep.count(&format!("score.seek.level.{}", seek.0));
    }
    if model_any_norm != real_any {
        rep.drift.push(format!("pick_compaction with a recorded seek compaction differs: implementation [{real_any}], model [{model_any_norm}] :: {case}"));
        rep.count("model_drift");
        return;
    }
    match &picked_any {
        None => rep.fail("oracle", "c09:recorded-seek-compaction-not-picked", &format!("file {} of level {} is recorded for a seek compaction but pick_compaction picked nothing: the work stays pending and is never scheduled away", seek.1, seek.0), &case),
        Some((l, a, b)) => {
            if !needs && (*l != seek.0 || !a.contains(&seek.1)) {
                rep.fail("oracle", "c07:seek-compaction-without-its-file", &format!("the seek compaction of file {} (level {}) was picked as level {l} with level files {a:?}", seek.1, seek.0), &case);
                return;
            }
            let valid = drv.ask(&format!("pick.valid {ltok} {l} {} {}", nums(a), nums(b)));
            rep.model_requests += 1;
            if valid != "true" {
                rep.fail("oracle", "c07:selected-compaction-inputs-invalid", &format!("the inputs pick_compaction selected for the seek compaction of file {} at level {l} (level files {a:?}, next-level files {b:?}) do not satisfy the input clauses of the model's validCompaction (answer: {valid})", seek.1), &case);
            }
        }
    }
}

pub fn rule() -> &'static str {
    "the real Version::finalize + VersionSet::pick_compaction on synthetic versions over all seven levels (0-17 overlapping level-0 files; deeper levels of 0-7 sorted files whose total size is k/64 of the level's limit for k in {0,1,20,63,64,65,100,128,640,6400} or one byte below / at / above the limit - the last level included; the level-1 limit is the built-in 10 MiB or 1 / 1000 / 4096 bytes through the instrumentation hook; compaction pointers absent, equal to a file's largest or smallest key, one sequence number off, or arbitrary) against the Lean model with the parameters regenerated from the sources; a panic of pick_compaction, a compaction without inputs or of the last level, and inputs violating validInputs are oracle failures; in three cases out of four the whole pick_compaction is run again with a recorded seek compaction (a random file of a level 0-5 as file_to_compact) against the model's pickAny: the size compaction must win when one is needed, otherwise the recorded file's compaction is picked, with valid inputs. Non-trivial = at least two files; distinct by generator seed."
}

pub fn run(tier: &str, seed: u64, replay: Option<&str>, drv_path: &str) -> Report {
    let mut rep = Report::new("score", rule());
    let mut drv = Drv::spawn(drv_path);
    let p = drv.ask("score.params");
    let v: Vec<u64> = p.split(' ').filter_map(|x| x.parse().ok()).collect();
    if v.len() != 4 || v[3] != 10 {
        rep.drift.push(format!("the generated scoring parameters are not the modelled ones (score.params = [{p}]; expected trigger, level-1 limit, scored levels, multiplier 10) :: score params"));
        rep.count("model_drift");
        return rep;
    }
    let params = (v[0], v[1], v[2]);
    rep.notes.push(format!("parameters regenerated from the sources: L0 trigger {}, level-1 limit {}, scored levels {}", v[0], v[1], v[2]));
    // the layouts print a few hundred panic messages when the property is violated: keep them quiet
    crate::lsm::install_panic_hook();
    if let Some(line) = replay {
        match line.split_whitespace().find_map(|t| t.strip_prefix("gen=")).and_then(|s| s.parse::<u64>().ok()) {
            Some(s) => check_case(s, &mut drv, &mut rep, &params),
            None => rep.fail("oracle", "score:bad-replay", "cannot parse replay case", line),
        }
        return rep;
    }
    let mut rng = Prng::new(seed ^ 0x5C0E);
    let n = if tier == "thorough" { 30_000 } else { 2500 };
    for _ in 0..n {
        let s = rng.next() % 1_000_000_000_000;
        check_case(s, &mut drv, &mut rep, &params);
    }
    rep
}
