//! C09 — every operation terminates; the background worker never dies.
//! Scenario runs under a watchdog (a scenario that does not finish is a hang) with the process-wide
//! panic hook watching the compaction thread.

use std::sync::atomic::{AtomicBool, Ordering};
use std::sync::Arc;
use std::time::Duration;

use raindb::db::DatabaseDescriptor;
use raindb::{ReadOptions, RainDbIterator, WriteOptions, DB};

use crate::dbsim::{with_deadline, Cfg};
use crate::prng::Prng;
use crate::report::Report;
use crate::shard::{note_progress, ShardArgs};
use crate::simfs::SimFs;

type Fail = (String, String);

static DRV_PATH: std::sync::OnceLock<String> = std::sync::OnceLock::new();
/// protocol-tie statistics of this process: (scheduling events checked, state samples checked, distinct observations)
pub static TIE: parking_lot::Mutex<(u64, u64, u64)> = parking_lot::Mutex::new((0, 0, 0));

fn b(x: bool) -> &'static str {
    if x {
        "1"
    } else {
        "0"
    }
}

/// Samples the state of the database (under its mutex) from a separate thread until told to stop.
/// Returns the distinct observations (scheduled, imm, manual, needs, bad, shutting) with counts.
struct Sampler {
    stop: Arc<std::sync::atomic::AtomicBool>,
    handle: Option<std::thread::JoinHandle<std::collections::BTreeMap<(bool, bool, bool, bool, bool, bool), u64>>>,
}

impl Sampler {
    fn start(db: &Arc<DB>) -> Sampler {
        let stop = Arc::new(std::sync::atomic::AtomicBool::new(false));
        let (d, st) = (Arc::downgrade(db), stop.clone());
        let handle = std::thread::spawn(move || {
            let mut seen = std::collections::BTreeMap::new();
            while !st.load(std::sync::atomic::Ordering::SeqCst) {
                let Some(db) = d.upgrade() else { break };
                let s = db.verif_state();
                drop(db);
                *seen.entry((s.background_scheduled, s.imm.is_some(), s.manual_compaction_pending, s.needs_compaction, s.bad_state.is_some(), s.shutting_down)).or_insert(0u64) += 1;
                std::thread::sleep(Duration::from_micros(30));
            }
            seen
        });
        Sampler { stop, handle: Some(handle) }
    }
    fn finish(mut self) -> std::collections::BTreeMap<(bool, bool, bool, bool, bool, bool), u64> {
        self.stop.store(true, std::sync::atomic::Ordering::SeqCst);
        self.handle.take().and_then(|h| h.join().ok()).unwrap_or_default()
    }
}

/// The model's invariant on everything observed of the scheduling protocol: the sampled states and
/// the recorded schedule / start / finish events (task and running counters derived from them).
fn check_protocol(samples: std::collections::BTreeMap<(bool, bool, bool, bool, bool, bool), u64>, fails: &mut Vec<Fail>) {
    let Some(p) = DRV_PATH.get() else { return };
    if p == "none" {
        return;
    }
    let mut drv = crate::drv::Drv::spawn(p);
    let mut tie = TIE.lock();
    for ((sc, imm, man, needs, bad, shut), n) in samples.iter() {
        tie.1 += n;
        tie.2 += 1;
        let a = drv.ask(&format!("sched.obs {} {} {} {} {} {}", b(*sc), b(*imm), b(*man), b(*needs), b(*bad), b(*shut)));
        if a != "ok" {
            fails.push(("c09:work-pending-but-nothing-scheduled".into(), format!("{n} state sample(s) taken while the database mutex was free show scheduled={sc} immutable-memtable={imm} manual-compaction={man} needs-compaction={needs} bad-state={bad} shutting-down={shut}: the model's invariant (work is never left unscheduled) does not hold, so a thread waiting for this work would never be woken (model: {a})")));
        }
    }
    let events = raindb::verif::events_take(crate::dbsim::DB_PATH);
    let mut tracker = SchedTracker::default();
    tie.0 += events.iter().filter(|e| matches!(e, raindb::verif::Event::Sched { .. })).count() as u64;
    if let Some(f) = tracker.feed(&events, &mut drv) {
        fails.push(f);
    }
}

/// Follows the recorded `schedule` / `start` / `finish` steps of one database instance (queued-task
/// and running counters are derived from the steps) and evaluates the model's invariant at each.
#[derive(Default)]
pub struct SchedTracker {
    tasks: i64,
    running: bool,
    cache: std::collections::BTreeMap<String, String>,
    pub checked: u64,
}

impl SchedTracker {
    /// a new database instance (after close + reopen) starts with no task queued
    pub fn reset(&mut self) {
        self.tasks = 0;
        self.running = false;
    }
    pub fn feed(&mut self, events: &[raindb::verif::Event], drv: &mut crate::drv::Drv) -> Option<Fail> {
        for ev in events {
            let raindb::verif::Event::Sched { kind, scheduled, imm, manual, needs_compaction, bad, shutting_down, level0_files } = ev else { continue };
            let (kind, scheduled, imm, manual, needs_compaction, bad, shutting_down, level0_files) = (*kind, *scheduled, *imm, *manual, *needs_compaction, *bad, *shutting_down, *level0_files);
            let mut check_now = true;
            match kind {
                "schedule" => {
                    self.tasks += 1;
                    check_now = !self.running; // inside the worker's own critical section the step is not finished yet
                }
                "start" => {}
                "finish" => self.running = false,
                _ => {}
            }
            if check_now {
                let req = format!("sched.inv {} {} {} {} {} {} {} {} {} 0", b(scheduled), self.tasks.max(0), b(self.running), b(imm), b(manual), b(needs_compaction), b(bad), b(shutting_down), level0_files);
                let a = match self.cache.get(&req) {
                    Some(a) => a.clone(),
                    None => {
                        let a = drv.ask(&req);
                        self.cache.insert(req.clone(), a.clone());
                        a
                    }
                };
                if a == "no-model" {
                    return None;
                }
                self.checked += 1;
                if a != "ok" || self.tasks < 0 {
                    return Some(("c09:scheduling-protocol-outside-the-verified-invariant".into(), format!("at a '{kind}' step of the background worker protocol the observed state (flag={scheduled}, queued tasks={}, running={}, immutable-memtable={imm}, manual={manual}, needs-compaction={needs_compaction}, level-0 files={level0_files}, bad={bad}, shutting-down={shutting_down}) violates the model's invariant: {a}", self.tasks, self.running)));
                }
            }
            if kind == "start" {
                self.tasks -= 1;
                self.running = true;
            }
        }
        None
    }
}

fn open(cfg: &Cfg, fs: &SimFs) -> Result<DB, Fail> {
    DB::open(cfg.options(fs)).map_err(|e| ("c09:open-failed".to_string(), e.to_string()))
}

/// every descriptor kind on a database with some data
fn descriptors(seed: u64) -> Vec<Fail> {
    let mut rng = Prng::new(seed);
    let fs = SimFs::new();
    let cfg = Cfg::gen(&mut rng);
    let db = match open(&cfg, &fs) {
        Ok(d) => d,
        Err(f) => return vec![f],
    };
    for i in 0..rng.range(0, 200) {
        let _ = db.put(WriteOptions::default(), format!("k{i:04}").into_bytes(), vec![b'v'; 30]);
    }
    let which = seed % 4;
    let db = Arc::new(db);
    let d2 = db.clone();
    let name = ["Stats", "SSTables", "NumFilesAtLevel(0)", "NumFilesAtLevel(7)"][which as usize];
    let r = with_deadline(10, move || match which {
        0 => d2.get_descriptor(DatabaseDescriptor::Stats).map(|s| s.len()),
        1 => d2.get_descriptor(DatabaseDescriptor::SSTables).map(|s| s.len()),
        2 => d2.get_descriptor(DatabaseDescriptor::NumFilesAtLevel(0)).map(|s| s.len()),
        _ => d2.get_descriptor(DatabaseDescriptor::NumFilesAtLevel(7)).map(|s| s.len()),
    });
    match r {
        None => {
            // the database mutex is stuck: do not try to close
            std::mem::forget(db);
            vec![(format!("c09:get-descriptor-{}-never-returns", name.split('(').next().unwrap().to_lowercase()), format!("get_descriptor({name}) did not return within 10 s"))]
        }
        Some(_) => {
            db.verif_wait_idle(Duration::from_secs(20));
            vec![]
        }
    }
}

/// sustained writes through memtable-full / level-0 slowdown / stop, then close
fn sustained(seed: u64) -> Vec<Fail> {
    let mut rng = Prng::new(seed);
    let fs = SimFs::new();
    let mut cfg = Cfg::gen(&mut rng);
    cfg.memtable = *rng.pick(&[256usize, 512]);
    cfg.file = *rng.pick(&[256u64, 1024, 1 << 20]);
    let _ = raindb::verif::events_take(crate::dbsim::DB_PATH);
    let db = match open(&cfg, &fs) {
        Ok(d) => Arc::new(d),
        Err(f) => return vec![f],
    };
    let sampler = Sampler::start(&db);
    let nthreads = rng.range(1, 4) as usize;
    let n = rng.range(300, 1500);
    let mut hs = vec![];
    for t in 0..nthreads {
        let d = db.clone();
        let s = rng.next();
        hs.push(std::thread::spawn(move || {
            let mut r = Prng::new(s);
            for i in 0..n {
                let k = format!("t{t}-{:05}", r.below(400)).into_bytes();
                if r.chance(1, 8) {
                    let _ = d.delete(WriteOptions::default(), k);
                } else {
                    let _ = d.put(WriteOptions::default(), k, vec![b'x'; r.range(1, 120) as usize]);
                }
                if i % 97 == 0 {
                    let _ = d.get(ReadOptions::default(), b"t0-00001");
                }
            }
        }));
    }
    if rng.chance(1, 2) {
        let d = db.clone();
        hs.push(std::thread::spawn(move || d.compact_range(None..None)));
    }
    let mut fails = vec![];
    for h in hs {
        if h.join().is_err() {
            fails.push(("c09:panic".into(), "a client thread panicked".into()));
        }
    }
    let samples = sampler.finish();
    // close right away (while background work may still be scheduled)
    match Arc::try_unwrap(db) {
        Ok(d) => {
            if std::panic::catch_unwind(std::panic::AssertUnwindSafe(move || drop(d))).is_err() {
                fails.push(("c09:panic-in-close".into(), "closing the database panicked".into()));
            }
        }
        Err(_) => {}
    }
    check_protocol(samples, &mut fails);
    fails
}

/// close while an iterator is still alive
fn close_with_iterator(seed: u64) -> Vec<Fail> {
    let mut rng = Prng::new(seed);
    let fs = SimFs::new();
    let cfg = Cfg::gen(&mut rng);
    let db = match open(&cfg, &fs) {
        Ok(d) => d,
        Err(f) => return vec![f],
    };
    for i in 0..50 {
        let _ = db.put(WriteOptions::default(), format!("k{i:04}").into_bytes(), vec![b'v'; 30]);
    }
    let mut it = match db.new_iterator(ReadOptions::default()) {
        Ok(i) => i,
        Err(e) => return vec![("c09:new-iterator-failed".into(), e.to_string())],
    };
    let _ = it.seek_to_first();
    let r = std::panic::catch_unwind(std::panic::AssertUnwindSafe(move || drop(db)));
    let mut fails = vec![];
    if r.is_err() {
        fails.push(("c09:close-with-live-iterator-panics".into(), "dropping the DB while a DatabaseIterator created from it is still alive panics (Arc::get_mut on the compaction worker)".into()));
    }
    let r2 = std::panic::catch_unwind(std::panic::AssertUnwindSafe(move || {
        let mut n = 0;
        while it.is_valid() && n < 1000 {
            it.next();
            n += 1;
        }
        drop(it);
    }));
    if r2.is_err() {
        fails.push(("c09:iterator-after-close-panics".into(), "using / dropping the iterator after the DB was dropped panics".into()));
    }
    fails
}

/// close while a background task is in flight (parked in the middle of building a table), after
/// nothing / a failed foreground write / a failed background write: the close must return once the
/// task is allowed to finish, whatever errors were recorded meanwhile
fn close_with_task_in_flight(seed: u64) -> Vec<Fail> {
    let mut rng = Prng::new(seed);
    let mut fails = vec![];
    let fs = SimFs::new();
    let mut cfg = Cfg::gen(&mut rng);
    cfg.memtable = *rng.pick(&[256usize, 512, 1024]);
    let db = match open(&cfg, &fs) {
        Ok(d) => d,
        Err(f) => return vec![f],
    };
    crate::sched::reset();
    let point = *rng.pick(&["bg:building-table", "bg:manifest-write"]);
    let gate = crate::sched::arm("bg", point, 1);
    let mut i = 0u64;
    while !gate.wait_parked(Duration::from_millis(1)) && i < 2000 {
        let _ = db.put(WriteOptions::default(), format!("k{:05}", i).into_bytes(), vec![b'v'; 40]);
        i += 1;
    }
    if !gate.wait_parked(Duration::from_secs(5)) {
        gate.release();
        crate::sched::reset();
        return fails; // no task could be parked with this configuration
    }
    let mode = seed % 3;
    let mut what = "no error";
    if mode == 1 {
        // the next filesystem call is the WAL append of this put (the background thread is parked)
        fs.reset_calls();
        fs.set_fault(Some(crate::simfs::FaultPlan { at: 0, sticky: false, partial: false }));
        let r = db.put(WriteOptions::default(), b"after".to_vec(), b"x".to_vec());
        fs.set_fault(None);
        if r.is_ok() && fs.faults_fired() > 0 {
            fails.push(("c08:write-ok-although-the-wal-append-failed".into(), "a put returned Ok although its WAL append failed".into()));
        }
        what = "a foreground write failed in the WAL (sticky bad state recorded by the writer)";
    } else if mode == 2 {
        // everything the parked task does next fails
        fs.reset_calls();
        fs.set_fault(Some(crate::simfs::FaultPlan { at: 0, sticky: true, partial: false }));
        what = "every filesystem call of the parked task fails";
    }
    let closer = std::thread::spawn(move || drop(db));
    std::thread::sleep(Duration::from_millis(rng.range(5, 60)));
    gate.release();
    let t0 = std::time::Instant::now();
    while !closer.is_finished() && t0.elapsed() < Duration::from_secs(20) {
        std::thread::sleep(Duration::from_millis(5));
    }
    if !closer.is_finished() {
        fails.push(("c09:close-never-returns".into(), format!("closing the database while a background task was parked at {point} ({what}) did not return within 20 s after the task was released: the closing thread waits for background_compaction_scheduled to clear and was never woken")));
        // the thread is leaked; the watchdog of the scenario runner takes care of the process
    } else if closer.join().is_err() {
        fails.push(("c09:panic-in-close".into(), format!("closing the database panicked ({what})")));
    }
    fs.set_fault(None);
    crate::sched::reset();
    fails
}


/// a group-commit leader that FAILS while other writers are queued behind it (its WAL append or
/// the memtable rotation it needs fails under an injected fault): whoever leaves the writer queue
/// must wake the next writer, so every queued call and every later call returns
fn failed_leader_with_queued_writers(seed: u64) -> Vec<Fail> {
    let mut rng = Prng::new(seed);
    let mut fails = vec![];
    let fs = SimFs::new();
    let mut cfg = Cfg::gen(&mut rng);
    cfg.memtable = *rng.pick(&[512usize, 1024, 2048]);
    let db = match open(&cfg, &fs) {
        Ok(d) => Arc::new(d),
        Err(f) => return vec![f],
    };
    crate::sched::reset();
    // writer A is parked with the mutex released, just before its WAL append; its value is larger
    // than the memtable, so the next leader has to rotate the memtable (new WAL file)
    let gate = crate::sched::arm("wA", "write:before-wal", 1);
    let followers = rng.range(1, 4) as usize;
    let done: Arc<parking_lot::Mutex<Vec<(String, bool)>>> = Arc::new(parking_lot::Mutex::new(vec![]));
    let mut handles = vec![];
    {
        let (db, done, big) = (Arc::clone(&db), Arc::clone(&done), cfg.memtable * 2);
        handles.push(std::thread::spawn(move || {
            crate::sched::set_role("wA");
            let r = db.put(WriteOptions::default(), b"leader".to_vec(), vec![b'a'; big]);
            done.lock().push(("A".to_string(), r.is_ok()));
        }));
    }
    if !gate.wait_parked(Duration::from_secs(5)) {
        gate.release();
        for h in handles {
            let _ = h.join();
        }
        crate::sched::reset();
        return fails;
    }
    for i in 0..followers {
        let (db, done) = (Arc::clone(&db), Arc::clone(&done));
        handles.push(std::thread::spawn(move || {
            crate::sched::set_role("wF");
            let r = if i == 1 {
                // a manual compaction queues an empty writer (forced flush)
                db.compact_range(Some(&b"a"[..])..Some(&b"b"[..]));
                Ok(())
            } else {
                db.put(WriteOptions::default(), format!("follower{i}").into_bytes(), vec![b'f'; 30])
            };
            done.lock().push((format!("F{i}"), r.is_ok()));
        }));
    }
    let t0 = std::time::Instant::now();
    while db.verif_state().writer_queue_len < 1 + followers && t0.elapsed() < Duration::from_secs(5) {
        std::thread::sleep(Duration::from_millis(1));
    }
    let queued = db.verif_state().writer_queue_len;
    // mode 0: every call from now on fails (the leader's own append too); mode 1..: the leader's
    // append goes through, the calls after it (rotation: new WAL file) fail
    let mode = seed % 4;
    fs.reset_calls();
    fs.set_fault(Some(crate::simfs::FaultPlan { at: mode, sticky: true, partial: false }));
    gate.release();
    let t0 = std::time::Instant::now();
    while handles.iter().any(|h| !h.is_finished()) && t0.elapsed() < Duration::from_secs(15) {
        std::thread::sleep(Duration::from_millis(5));
    }
    let stuck = handles.iter().filter(|h| !h.is_finished()).count();
    fs.set_fault(None);
    if stuck > 0 {
        fails.push(("c09:queued-writer-never-returns".into(), format!("{stuck} of {} calls queued behind a group-commit leader never returned after the leader (or the next leader) failed under an injected I/O fault (fault from call {mode} on, {queued} writers were queued, {} filesystem faults fired); returned so far: {:?}: a writer that leaves the queue must wake the next one", 1 + followers, fs.faults_fired(), done.lock().clone())));
        crate::sched::reset();
        std::mem::forget(db);
        return fails;
    }
    for h in handles {
        if h.join().is_err() {
            fails.push(("c09:panic-in-write".into(), "a writer thread panicked".into()));
        }
    }
    // a later call must return as well (Ok or the recorded error)
    let (db2, flag) = (Arc::clone(&db), Arc::new(AtomicBool::new(false)));
    let f2 = Arc::clone(&flag);
    let later = std::thread::spawn(move || {
        let _ = db2.put(WriteOptions::default(), b"later".to_vec(), b"x".to_vec());
        f2.store(true, Ordering::SeqCst);
    });
    let t0 = std::time::Instant::now();
    while !flag.load(Ordering::SeqCst) && t0.elapsed() < Duration::from_secs(10) {
        std::thread::sleep(Duration::from_millis(2));
    }
    if !flag.load(Ordering::SeqCst) {
        fails.push(("c09:write-after-failed-leader-never-returns".into(), format!("a put issued after a group-commit leader had failed under an injected fault (fault from call {mode} on, {queued} writers were queued) did not return within 10 s")));
        crate::sched::reset();
        std::mem::forget(db);
        return fails;
    }
    let _ = later.join();
    crate::sched::reset();
    fails
}

/// a writer parked in `make_room_for_write` behind a flush that then FAILS: the worker records the
/// sticky error and notifies; the writer must come back with the error (the loop of
/// `make_room_for_write` re-reads the error at the top of every iteration - `Rain.MakeRoom.branch`
/// starts with it), and so must every later call and the close
fn writer_waits_for_failing_flush(seed: u64) -> Vec<Fail> {
    let mut rng = Prng::new(seed);
    let mut fails = vec![];
    let fs = SimFs::new();
    let mut cfg = Cfg::gen(&mut rng);
    cfg.memtable = *rng.pick(&[512usize, 1024, 2048]);
    let db = match open(&cfg, &fs) {
        Ok(d) => Arc::new(d),
        Err(f) => return vec![f],
    };
    crate::sched::reset();
    let point = *rng.pick(&["bg:building-table", "bg:manifest-write"]);
    let gate = crate::sched::arm("bg", point, 1);
    let mut i = 0u64;
    while !gate.wait_parked(Duration::from_millis(1)) && i < 2000 {
        let _ = db.put(WriteOptions::default(), format!("k{:05}", i).into_bytes(), vec![b'v'; 40]);
        i += 1;
    }
    if !gate.wait_parked(Duration::from_secs(5)) {
        gate.release();
        crate::sched::reset();
        return fails;
    }
    // the flush is parked: a writer fills the new memtable and then has to wait for it
    let progress = Arc::new(std::sync::atomic::AtomicU64::new(0));
    let finished = Arc::new(AtomicBool::new(false));
    let writer = {
        let (db, progress, finished, n) = (Arc::clone(&db), Arc::clone(&progress), Arc::clone(&finished), (cfg.memtable as u64 / 50) * 4 + 40);
        std::thread::spawn(move || {
            crate::sched::set_role("wW");
            let mut errors = 0u64;
            for j in 0..n {
                if db.put(WriteOptions::default(), format!("w{:05}", j).into_bytes(), vec![b'w'; 60]).is_err() {
                    errors += 1;
                }
                progress.fetch_add(1, Ordering::SeqCst);
            }
            finished.store(true, Ordering::SeqCst);
            errors
        })
    };
    // wait until the writer has stopped making progress (blocked behind the parked flush)
    let mut last = (progress.load(Ordering::SeqCst), std::time::Instant::now());
    let t0 = std::time::Instant::now();
    while t0.elapsed() < Duration::from_secs(5) && !finished.load(Ordering::SeqCst) {
        std::thread::sleep(Duration::from_millis(5));
        let now = progress.load(Ordering::SeqCst);
        if now != last.0 {
            last = (now, std::time::Instant::now());
        } else if last.1.elapsed() > Duration::from_millis(300) {
            break;
        }
    }
    let blocked = !finished.load(Ordering::SeqCst);
    // everything the parked flush does from now on fails
    fs.reset_calls();
    fs.set_fault(Some(crate::simfs::FaultPlan { at: 0, sticky: true, partial: false }));
    gate.release();
    let t0 = std::time::Instant::now();
    while !writer.is_finished() && t0.elapsed() < Duration::from_secs(15) {
        std::thread::sleep(Duration::from_millis(5));
    }
    fs.set_fault(None);
    if !writer.is_finished() {
        fails.push(("c09:writer-waiting-for-a-failed-flush-never-returns".into(), format!("a put that was {} behind a memtable flush parked at {point} did not return within 15 s after the flush failed under an injected I/O fault ({} filesystem faults fired; {} of its puts had returned): the worker recorded the error and notified, the writer never looked at it", if blocked { "waiting in make_room_for_write" } else { "running" }, fs.faults_fired(), progress.load(Ordering::SeqCst))));
        crate::sched::reset();
        std::mem::forget(db);
        return fails;
    }
    let _ = writer.join();
    // a later call and the close must return as well
    let flag = Arc::new(AtomicBool::new(false));
    let (db2, f2) = (Arc::clone(&db), Arc::clone(&flag));
    let later = std::thread::spawn(move || {
        let _ = db2.put(WriteOptions::default(), b"later".to_vec(), b"x".to_vec());
        f2.store(true, Ordering::SeqCst);
    });
    let t0 = std::time::Instant::now();
    while !flag.load(Ordering::SeqCst) && t0.elapsed() < Duration::from_secs(10) {
        std::thread::sleep(Duration::from_millis(2));
    }
    if !flag.load(Ordering::SeqCst) {
        fails.push(("c09:write-after-failed-flush-never-returns".into(), format!("a put issued after a memtable flush (parked at {point}) had failed under an injected fault did not return within 10 s")));
        crate::sched::reset();
        std::mem::forget(db);
        return fails;
    }
    let _ = later.join();
    crate::sched::reset();
    let closer = std::thread::spawn(move || drop(db));
    let t0 = std::time::Instant::now();
    while !closer.is_finished() && t0.elapsed() < Duration::from_secs(15) {
        std::thread::sleep(Duration::from_millis(5));
    }
    if !closer.is_finished() {
        fails.push(("c09:close-never-returns".into(), format!("closing the database after a memtable flush (parked at {point}) had failed under an injected fault did not return within 15 s")));
    }
    fails
}

/// degenerate option values
fn degenerate(seed: u64) -> Vec<Fail> {
    let fs = SimFs::new();
    let (mem, file, block) = match seed % 7 {
        0 => (0usize, 1024u64, 256usize),
        1 => (1, 1024, 256),
        2 => (64, 1024, 256),
        3 => (1024, 0, 256),
        4 => (1024, 1, 256),
        5 => (1024, 1024, 0),
        _ => (1024, 1024, 1),
    };
    let cfg = Cfg { memtable: mem, file, block, reuse: true, bloom_bits: 10, share: false };
    let db = match open(&cfg, &fs) {
        Ok(d) => d,
        Err(_) => return vec![], // rejecting the options is fine
    };
    let mut fails = vec![];
    for i in 0..40 {
        if let Err(e) = db.put(WriteOptions::default(), format!("k{i:03}").into_bytes(), vec![b'v'; 20]) {
            fails.push(("c09:write-fails-with-degenerate-options".into(), format!("memtable={mem} file={file} block={block}: {e}")));
            break;
        }
    }
    db.compact_range(None..None);
    for i in 0..40 {
        match db.get(ReadOptions::default(), format!("k{i:03}").as_bytes()) {
            Ok(_) => {}
            Err(e) => {
                fails.push(("c09:read-fails-with-degenerate-options".into(), format!("memtable={mem} file={file} block={block}: get k{i:03}: {e}")));
                break;
            }
        }
    }
    if std::panic::catch_unwind(std::panic::AssertUnwindSafe(move || drop(db))).is_err() {
        fails.push(("c09:panic-in-close".into(), "closing the database panicked".into()));
    }
    fails
}

/// snapshots and iterators taken and released from several threads while writing
fn snapshots_threads(seed: u64) -> Vec<Fail> {
    let mut rng = Prng::new(seed);
    let fs = SimFs::new();
    let mut cfg = Cfg::gen(&mut rng);
    cfg.memtable = 512;
    let db = match open(&cfg, &fs) {
        Ok(d) => Arc::new(d),
        Err(f) => return vec![f],
    };
    let mut hs = vec![];
    for t in 0..3 {
        let d = db.clone();
        hs.push(std::thread::spawn(move || {
            for i in 0..150 {
                let _ = d.put(WriteOptions::default(), format!("s{t}-{i:04}").into_bytes(), vec![b'x'; 40]);
                if i % 5 == 0 {
                    let s = d.get_snapshot();
                    let _ = d.get(ReadOptions { fill_cache: true, snapshot: Some(s.clone()) }, b"s0-0001");
                    d.release_snapshot(s);
                }
                if i % 11 == 0 {
                    if let Ok(mut it) = d.new_iterator(ReadOptions::default()) {
                        let _ = it.seek_to_first();
                        let mut n = 0;
                        while it.is_valid() && n < 20 {
                            it.next();
                            n += 1;
                        }
                    }
                }
            }
        }));
    }
    let mut fails = vec![];
    for h in hs {
        if h.join().is_err() {
            fails.push(("c09:panic".into(), "a client thread panicked".into()));
        }
    }
    db.verif_wait_idle(Duration::from_secs(20));
    if let Ok(d) = Arc::try_unwrap(db) {
        if std::panic::catch_unwind(std::panic::AssertUnwindSafe(move || drop(d))).is_err() {
            fails.push(("c09:panic-in-close".into(), "closing the database panicked".into()));
        }
    }
    fails
}

pub fn rule() -> &'static str {
    "watchdog scenarios on the real database (the last one added: a writer parked in make_room_for_write behind a flush that then fails under an injected fault must come back with the error, as must a later put and the close): every descriptor kind; sustained multi-threaded writes with 256-512 byte memtables (memtable-full waits, level-0 slowdown and stop) with a concurrent manual compaction, closed immediately afterwards; closing while an iterator is alive; a group-commit leader parked before its WAL append with one to three calls (puts, a manual compaction) queued behind it, then an injected sticky fault (from the leader's own append on, or from the 1st-3rd call after it on: the rotation the next leader needs) - every queued call and a later put must return; closing while a background task is parked in the middle of a flush (scheduling hook) after no error, after a failed foreground WAL append, or with every further filesystem call of the task failing; degenerate option values (memtable 0/1/64, file size 0/1, block size 0/1); snapshots and iterators taken and released from several threads. A scenario that does not finish within its deadline is a hang; any panic of the compaction thread is recorded by the process-wide panic hook. Non-trivial = the scenario ran; distinct by (scenario, seed)."
}

pub fn run(tier: &str, seed: u64, replay: Option<&str>, shard: Option<ShardArgs>, drv_path: &str) -> Report {
    crate::lsm::install_panic_hook();
    crate::sched::init();
    let _ = DRV_PATH.set(drv_path.to_string());
    let mut rep = Report::new("c09", rule());
    let thorough = tier == "thorough";
    let scenarios: Vec<(&str, fn(u64) -> Vec<Fail>, u64, u64)> = vec![
        ("descriptors", descriptors, if thorough { 40 } else { 8 }, 30),
        ("sustained", sustained, if thorough { 120 } else { 16 }, 120),
        ("close-with-iterator", close_with_iterator, if thorough { 10 } else { 3 }, 30),
        ("close-with-task-in-flight", close_with_task_in_flight, if thorough { 90 } else { 15 }, 60),
        ("failed-leader-with-queued-writers", failed_leader_with_queued_writers, if thorough { 120 } else { 24 }, 60),
        ("degenerate", degenerate, 7, 40),
        ("snapshots-threads", snapshots_threads, if thorough { 40 } else { 6 }, 90),
        ("writer-waits-for-failing-flush", writer_waits_for_failing_flush, if thorough { 90 } else { 16 }, 90),
    ];
    let run_one = |name: &str, f: fn(u64) -> Vec<Fail>, s: u64, secs: u64, rep: &mut Report| {
        let line = format!("c09 scenario={name} seed={s}");
        let _ = crate::lsm::PANICS.lock().map(|mut g| g.clear());
        let r = with_deadline(secs, move || f(s));
        let panics = crate::lsm::PANICS.lock().map(|mut g| std::mem::take(&mut *g)).unwrap_or_default();
        rep.case(&line, true);
        rep.count(&format!("c09.scenario.{name}"));
        match r {
            None => rep.fail("hang", &format!("c09:{name}-never-finishes"), &format!("scenario {name} did not finish within {secs} s"), &line),
            Some(fails) => {
                for (sig, what) in fails {
                    rep.fail("oracle", &sig, &what, &line);
                }
            }
        }
        for (thread, msg) in panics {
            if thread.starts_with("raindb-") {
                rep.fail("oracle", "c09:background-thread-panicked", &format!("the compaction thread panicked: {}", msg.chars().take(300).collect::<String>()), &line);
            }
        }
    };
    if let Some(line) = replay {
        let get = |name: &str| line.split_whitespace().find_map(|t| t.strip_prefix(&format!("{name}="))).map(|s| s.to_string());
        if let (Some(n), Some(s)) = (get("scenario"), get("seed").and_then(|s| s.parse::<u64>().ok())) {
            if let Some((name, f, _, secs)) = scenarios.iter().find(|x| x.0 == n) {
                run_one(name, *f, s, *secs, &mut rep);
                return rep;
            }
        }
        rep.fail("oracle", "c09:bad-replay", "cannot parse replay case", line);
        return rep;
    }
    let mut rng = Prng::new(seed ^ 0xC09);
    let (idx, cnt) = shard.as_ref().map_or((0, 1), |s| (s.index, s.count));
    let shard_opt = shard;
    let mut j = 0usize;
    for (name, f, n, secs) in scenarios.iter() {
        for i in 0..*n {
            let s = if *name == "degenerate" || *name == "descriptors" { i } else { rng.next() % 1_000_000_000 };
            j += 1;
            if j % cnt != idx {
                continue;
            }
            note_progress(&shard_opt, &format!("c09 scenario={name} seed={s}"));
            run_one(name, *f, s, *secs, &mut rep);
        }
    }
    let t = *TIE.lock();
    rep.add("c09.protocol-events-checked-against-the-model-invariant", t.0);
    rep.add("c09.state-samples-checked-against-the-model-invariant", t.1);
    rep.add("c09.distinct-observations", t.2);
    rep.model_requests += t.0 + t.2;
    rep
}
