//! Write-batch records (WAL payload) and manifest records: the real encoders / decoders against the
//! Lean model (`Rain/Codec.lean`), on generated records and on damaged encodings.

use crate::drv::{hex, Drv};
use crate::prng::Prng;
use crate::report::Report;

fn gen_bytes(rng: &mut Prng, big_ok: bool) -> Vec<u8> {
    let n = match rng.below(12) {
        0 => 0,
        1 => 1,
        2 => 127,
        3 => 128,
        4 => 129,
        5 if big_ok => 16_383 + rng.below(3) as usize,
        6 if big_ok => 20_000,
        _ => rng.range(1, 40) as usize,
    };
    rng.bytes(n)
}

fn hx(b: &[u8]) -> String {
    if b.is_empty() {
        "-".to_string()
    } else {
        hex(b)
    }
}

fn gen_u64(rng: &mut Prng) -> u64 {
    match rng.below(8) {
        0 => 0,
        1 => 127,
        2 => 128,
        3 => u64::MAX,
        4 => (1 << 56) - 1,
        5 => 1 << 32,
        _ => rng.below(100_000),
    }
}

fn gen_batch_line(rng: &mut Prng) -> String {
    let mut toks = vec!["batch.encode".to_string(), gen_u64(rng).to_string()];
    // operation counts around the lengths at which the count's varint grows by a byte
    let many: Option<u64> = match rng.below(40) {
        0..=3 => Some(*rng.pick(&[126u64, 127, 128, 129, 130, 255, 256, 300])),
        4 => Some(*rng.pick(&[16_383u64, 16_384, 16_385])),
        _ => None,
    };
    match many {
        Some(n) => {
            for i in 0..n {
                if i % 5 == 4 {
                    toks.push(format!("d:{:02x}", i % 251));
                } else {
                    toks.push(format!("p:{:02x}:{:02x}", i % 251, i % 7));
                }
            }
        }
        None => {
            for _ in 0..rng.below(12) {
                if rng.chance(3, 4) {
                    toks.push(format!("p:{}:{}", hx(&gen_bytes(rng, true)), hx(&gen_bytes(rng, true))));
                } else {
                    toks.push(format!("d:{}", hx(&gen_bytes(rng, false))));
                }
            }
        }
    }
    toks.join(" ")
}

fn gen_ikey(rng: &mut Prng) -> String {
    format!("{}/{}/{}", hx(&gen_bytes(rng, false)), gen_u64(rng), if rng.chance(1, 2) { "p" } else { "d" })
}

fn gen_edit_line(rng: &mut Prng) -> String {
    let opt = |rng: &mut Prng| if rng.chance(1, 3) { "-".to_string() } else { gen_u64(rng).to_string() };
    let list = |v: Vec<String>| if v.is_empty() { "-".to_string() } else { v.join(",") };
    let ptrs: Vec<String> = (0..rng.below(3)).map(|_| format!("{}:{}", rng.below(7), gen_ikey(rng))).collect();
    let dels: Vec<String> = (0..rng.below(6)).map(|_| format!("{}:{}", rng.below(7), rng.below(12))).collect();
    let news: Vec<String> = (0..rng.below(4)).map(|_| format!("{}:{}:{}:{}:{}", rng.below(7), gen_u64(rng), gen_u64(rng), gen_ikey(rng), gen_ikey(rng))).collect();
    format!("edit.encode wal={} prevwal={} seq={} next={} ptr={} del={} new={}", opt(rng), opt(rng), opt(rng), opt(rng), list(ptrs), list(dels), list(news))
}

fn unhex(s: &str) -> Vec<u8> {
    if s == "-" {
        return vec![];
    }
    (0..s.len() / 2).filter_map(|i| u8::from_str_radix(&s[2 * i..2 * i + 2], 16).ok()).collect()
}

fn damage(rng: &mut Prng, bytes: &[u8]) -> Vec<u8> {
    let mut b = bytes.to_vec();
    match rng.below(6) {
        0 if !b.is_empty() => {
            let n = rng.below(b.len() as u64) as usize;
            b.truncate(n);
        }
        1 => {
            let n = rng.range(1, 6) as usize;
            b.extend(rng.bytes(n));
        }
        2 if !b.is_empty() => {
            let i = rng.below(b.len() as u64) as usize;
            b[i] ^= 1 << rng.below(8);
        }
        3 if !b.is_empty() => {
            let i = rng.below(b.len() as u64) as usize;
            b[i] = *rng.pick(&[0u8, 0x7f, 0x80, 0xff]);
        }
        4 if b.len() > 2 => {
            let i = rng.below(b.len() as u64 - 1) as usize;
            b.remove(i);
        }
        _ => {
            let i = rng.below(b.len() as u64 + 1) as usize;
            b.insert(i, rng.below(256) as u8);
        }
    }
    b
}

pub fn rule() -> &'static str {
    "write-batch records and manifest records: generated records (sequence numbers and numbers 0 .. 2^64-1, keys/values of 0 .. 20 000 bytes, 0-11 operations, and batches of 126-130 / 255-300 / 16 383-16 385 operations (the lengths at which the count's varint grows); 0-5 deleted files with duplicates, 0-3 new files, compaction pointers, optional fields present/absent) encoded by the real code and by the model (batches byte for byte; manifest records through decoding, because the real encoder iterates a hash set), decoded by both; then damaged encodings (truncated, extended, bit flips, 0x00/0x7f/0x80/0xff bytes, a byte removed or inserted): both decoders must give the same answer, error or record. Non-trivial = the record has at least one operation / field; distinct by case text."
}

fn one(kind: &str, line: &str, rng: &mut Prng, drv: &mut Drv, rep: &mut Report) {
    let case = format!("codec {line}");
    let nontrivial = line.split_whitespace().count() > 2;
    rep.case(&case, nontrivial);
    let real_enc = raindb::verif::codec::run_line(line);
    let model_enc = drv.ask(line);
    if model_enc == "no-model" {
        return;
    }
    rep.model_requests += 1;
    let dec = format!("{kind}.decode");
    if kind == "batch" {
        if real_enc != model_enc {
            rep.drift.push(format!("batch encoding differs: implementation {} model {} :: {case}", &real_enc[..real_enc.len().min(80)], &model_enc[..model_enc.len().min(80)]));
            rep.count("model_drift");
            return;
        }
    } else {
        // the implementation writes the deleted files in hash-set order: compare through the decoders
        let a = drv.ask(&format!("{dec} {real_enc}"));
        let b = drv.ask(&format!("{dec} {model_enc}"));
        let c = raindb::verif::codec::run_line(&format!("{dec} {model_enc}"));
        let d = raindb::verif::codec::run_line(&format!("{dec} {real_enc}"));
        if !(a == b && b == c && c == d) || a == "error" {
            rep.drift.push(format!("manifest record round trips differ: model(decode impl-encoded)={a} model(decode model-encoded)={b} impl(decode model-encoded)={c} impl(decode impl-encoded)={d} :: {case}"));
            rep.count("model_drift");
            return;
        }
    }
    // decoders on the intact and on damaged encodings
    let bytes = unhex(&model_enc);
    for round in 0..6 {
        let b = if round == 0 { bytes.clone() } else { damage(rng, &bytes) };
        let req = format!("{dec} {}", hx(&b));
        let real = raindb::verif::codec::run_line(&req);
        let model = drv.ask(&req);
        rep.count(if real == "error" { "codec.decodes.rejected" } else { "codec.decodes.accepted" });
        if real == "PANIC" {
            rep.fail("oracle", "codec:decoder-panics", &format!("the {kind} decoder panics on {}", hx(&b)), &format!("codec {req}"));
            return;
        }
        if round == 0 && real == "error" {
            // what the encoder wrote is what recovery has to read back
            rep.fail("oracle", if kind == "batch" { "c02:wal-record-written-by-the-encoder-is-rejected-by-the-decoder" } else { "c02:manifest-record-written-by-the-encoder-is-rejected-by-the-decoder" }, &format!("the {kind} decoder rejects an intact record produced by the encoder ({} bytes): recovery cannot read back what was acknowledged", b.len()), &format!("codec {line}"));
            return;
        }
        if real != model {
            rep.drift.push(format!("{kind} decoders differ on {}: implementation [{}] model [{}] :: codec {req}", if round == 0 { "an intact record" } else { "a damaged record" }, &real[..real.len().min(120)], &model[..model.len().min(120)]));
            rep.count("model_drift");
            return;
        }
    }
}

pub fn run(tier: &str, seed: u64, replay: Option<&str>, drv_path: &str) -> Report {
    let mut rep = Report::new("codec", rule());
    let mut drv = Drv::spawn(drv_path);
    let mut rng = Prng::new(seed ^ 0xC0DEC);
    if let Some(line) = replay {
        let l = line.strip_prefix("codec ").unwrap_or(line);
        if l.starts_with("batch.decode") || l.starts_with("edit.decode") {
            let real = raindb::verif::codec::run_line(l);
            let model = drv.ask(l);
            rep.case(line, true);
            if real == "PANIC" {
                rep.fail("oracle", "codec:decoder-panics", "the decoder panics", line);
            } else if real != model {
                rep.drift.push(format!("decoders differ: implementation [{real}] model [{model}] :: {line}"));
            }
        } else {
            let kind = if l.starts_with("batch") { "batch" } else { "edit" };
            one(kind, l, &mut rng, &mut drv, &mut rep);
        }
        return rep;
    }
    let n = if tier == "thorough" { 20_000 } else { 1500 };
    for i in 0..n {
        if i % 2 == 0 {
            let l = gen_batch_line(&mut rng);
            one("batch", &l, &mut rng, &mut drv, &mut rep);
        } else {
            let l = gen_edit_line(&mut rng);
            one("edit", &l, &mut rng, &mut drv, &mut rep);
        }
    }
    rep
}
