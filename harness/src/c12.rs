//! C12 — log files return exactly the records appended.
//!
//! Drives the real `LogWriter`/`LogReader` (through `raindb::verif`) on SimFs and compares
//! (1) with the oracle: reading returns exactly the appended records / exactly the complete
//!     records of a truncated file / complete-before ++ appended-after for a writer that died
//!     between two fragments;
//! (2) with the Lean model (`raindrv`): byte-exact file contents and reader output.

use std::path::Path;

use crate::drv::{hex, unhex, Drv};
use crate::prng::Prng;
use crate::report::Report;
use crate::simfs::SimFs;

const B: usize = 32768;
const H: usize = 7;

#[derive(Clone, Debug)]
pub struct Case {
    /// record lengths per writer session (each session re-opens the file in append mode)
    pub sessions: Vec<Vec<usize>>,
    /// the last-but-one session dies after this many successful `write_all` calls; the last
    /// session is the writer that re-opens afterwards
    pub cut: Option<u64>,
    /// truncate the finished file to this many bytes before reading
    pub trunc: Option<usize>,
    pub dseed: u64,
}

impl Case {
    pub fn to_line(&self) -> String {
        let ss: Vec<String> = self
            .sessions
            .iter()
            .map(|s| if s.is_empty() { "_".to_string() } else { s.iter().map(|l| l.to_string()).collect::<Vec<_>>().join(",") })
            .collect();
        format!(
            "c12 sessions={} cut={} trunc={} dseed={}",
            ss.join("|"),
            self.cut.map_or("-".to_string(), |k| k.to_string()),
            self.trunc.map_or("-".to_string(), |k| k.to_string()),
            self.dseed
        )
    }
    pub fn from_line(line: &str) -> Option<Case> {
        let mut c = Case { sessions: vec![], cut: None, trunc: None, dseed: 0 };
        for tok in line.split_whitespace().skip(1) {
            let (k, v) = tok.split_once('=')?;
            match k {
                "sessions" => {
                    for s in v.split('|') {
                        if s == "_" {
                            c.sessions.push(vec![]);
                        } else {
                            c.sessions.push(s.split(',').map(|x| x.parse().ok()).collect::<Option<Vec<usize>>>()?);
                        }
                    }
                }
                "cut" => c.cut = if v == "-" { None } else { Some(v.parse().ok()?) },
                "trunc" => c.trunc = if v == "-" { None } else { Some(v.parse().ok()?) },
                "dseed" => c.dseed = v.parse().ok()?,
                _ => return None,
            }
        }
        Some(c)
    }
    fn record(&self, si: usize, ri: usize, len: usize) -> Vec<u8> {
        let mut p = Prng::new(self.dseed ^ ((si as u64) << 32) ^ (ri as u64) ^ ((len as u64) << 16));
        let a = p.next();
        (0..len).map(|j| (a.wrapping_add((j as u64).wrapping_mul(0x9E37)) >> 3) as u8).collect()
    }
}

pub struct Outcome {
    pub oracle_fail: Option<String>,
    pub model_fail: Option<String>,
    pub file_len: usize,
    pub nrecs: usize,
}

/// run one case against the implementation, the oracle and the model
pub fn run_case(c: &Case, drv: &mut Drv) -> Outcome {
    let fs = SimFs::new();
    let dynfs = fs.dyn_fs();
    let path = Path::new("/log");
    let mut expected: Vec<Vec<u8>> = vec![];
    let mut ends: Vec<u64> = vec![];
    let mut model_file: Vec<u8> = vec![];
    let mut model_fail: Option<String> = None;
    let nsess = c.sessions.len();
    let mut died_inside_fragment = false;
    for (si, lens) in c.sessions.iter().enumerate() {
        if died_inside_fragment {
            break;
        }
        let recs: Vec<Vec<u8>> = lens.iter().enumerate().map(|(ri, l)| c.record(si, ri, *l)).collect();
        let dying = c.cut.is_some() && nsess >= 2 && si == nsess - 2;
        if dying {
            fs.set_write_budget(c.cut);
        }
        let res = raindb::verif::log_write(dynfs.clone(), path, true, &recs);
        fs.set_write_budget(None);
        // model: the writes this session performs
        let flen = model_file.len();
        let mut req = format!("log.writes {}", flen);
        for r in &recs {
            req.push(' ');
            req.push_str(&hex(r));
        }
        let ans = drv.ask(&req);
        let toks: Vec<&str> = ans.split(' ').collect();
        if ans == "no-model" {
            model_file = fs.read_file(path).unwrap_or_default();
        } else if toks.len() < 2 || ans == "bad-request" {
            model_fail.get_or_insert(format!("model rejected request: {ans}"));
        } else {
            let chunks: Vec<Vec<u8>> = toks[2..].iter().filter(|t| !t.is_empty()).filter_map(|t| unhex(t)).collect();
            if dying {
                // the model predicts the BYTE STREAM of the session; how many write calls the
                // implementation needs for it (one per fragment, header and payload separately, several
                // fragments at once) is its own business: take as many bytes as the dying writer got out
                let stream: Vec<u8> = chunks.iter().flatten().copied().collect();
                let written = fs.read_file(path).unwrap_or_default().len().saturating_sub(flen).min(stream.len());
                model_file.extend_from_slice(&stream[..written]);
                let mut boundary = 0usize;
                let mut at_boundary = written == 0;
                for ch in &chunks {
                    boundary += ch.len();
                    if boundary == written {
                        at_boundary = true;
                    }
                }
                // a writer that died INSIDE a fragment leaves a torn tail: such a log is never opened
                // for appending again (it does not read cleanly to its end), so no later session follows
                died_inside_fragment = !at_boundary;
            } else {
                for ch in chunks.iter() {
                    model_file.extend_from_slice(ch);
                }
            }
        }
        match res {
            Err(e) => {
                return Outcome { oracle_fail: Some(format!("LogWriter::new failed: {e}")), model_fail, file_len: 0, nrecs: 0 };
            }
            Ok(results) => {
                for (ri, r) in results.iter().enumerate() {
                    match r {
                        Ok(end) => {
                            expected.push(recs[ri].clone());
                            ends.push(*end);
                        }
                        Err(e) => {
                            if !dying {
                                return Outcome {
                                    oracle_fail: Some(format!("append failed without an injected fault: {e}")),
                                    model_fail,
                                    file_len: 0,
                                    nrecs: 0,
                                };
                            }
                        }
                    }
                }
                if !dying && results.len() != recs.len() {
                    return Outcome { oracle_fail: Some("fewer results than records".into()), model_fail, file_len: 0, nrecs: 0 };
                }
            }
        }
    }
    let mut file = fs.read_file(path).unwrap_or_default();
    if model_fail.is_none() && file != model_file {
        let pos = file.iter().zip(model_file.iter()).position(|(a, b)| a != b).unwrap_or(file.len().min(model_file.len()));
        model_fail = Some(format!(
            "file bytes differ from the model: impl len {} model len {} first difference at {}",
            file.len(),
            model_file.len(),
            pos
        ));
    }
    if let Some(n) = c.trunc {
        let n = n.min(file.len());
        file.truncate(n);
        fs.write_file_raw(path, file.clone());
        let keep = ends.iter().take_while(|e| (**e as usize) <= n).count();
        // ends are increasing, so the complete records are a prefix
        expected.truncate(keep);
    }
    let got = raindb::verif::log_read_all_with_status(dynfs.clone(), path);
    let mut oracle_fail = None;
    let (got_recs, got_err, got_clean) = match got {
        Err(e) => (vec![], Some(format!("LogReader::new failed: {e}")), false),
        Ok((r, e, c)) => (r, e, c),
    };
    if let Some(e) = &got_err {
        oracle_fail = Some(format!("reader returned a hard error: {e}"));
    } else if got_recs != expected {
        let pos = got_recs.iter().zip(expected.iter()).position(|(a, b)| a != b).unwrap_or(got_recs.len().min(expected.len()));
        oracle_fail = Some(format!(
            "reader returned {} records, expected {}; first difference at record {} (got len {:?}, expected len {:?})",
            got_recs.len(),
            expected.len(),
            pos,
            got_recs.get(pos).map(|r| r.len()),
            expected.get(pos).map(|r| r.len())
        ));
    }
    // oracle for the "may this log be appended to" status: a file cut inside a record, or holding
    // the fragments of a record its writer never finished, must not be reported clean; a complete
    // file must be
    if oracle_fail.is_none() {
        let must_be_dirty = c.cut.is_some() && false; // decided below from the byte structure
        let _ = must_be_dirty;
        if c.cut.is_none() {
            let complete_len = ends.iter().take(expected.len()).last().copied().unwrap_or(0) as usize;
            // zero padding after the last complete record is fine; anything else is a torn tail
            let tail_is_padding = file.len() >= complete_len && file[complete_len..].iter().all(|b| *b == 0) && file.len() - complete_len < H;
            // a partially present trailer may be reported either way (not reusing such a log is
            // merely conservative); only a log nobody cut must be reusable
            let whole = c.trunc.is_none();
            if whole && !got_clean {
                oracle_fail = Some("a completely written log is reported as not cleanly readable (it would never be reused)".into());
            }
            if !whole && got_clean && file.len() > complete_len && !tail_is_padding {
                oracle_fail = Some(format!("a log cut inside a record (complete records end at {complete_len}, file has {} bytes) is reported as cleanly read: recovery would append behind the torn tail", file.len()));
            }
        }
    }
    if oracle_fail.is_none() && died_inside_fragment && c.trunc.is_none() && got_clean {
        oracle_fail = Some("the last writer died inside a fragment, yet the log is reported as cleanly read to its end: recovery would append behind the torn tail".into());
    }
    // model reader on the same bytes
    if model_fail.is_none() {
        let ans_full = drv.ask(&format!("log.readalls {}", hex(&file)));
        let (status, ans) = match ans_full.split_once(' ') {
            Some((a, b)) => (a.to_string(), b.to_string()),
            None => (String::new(), ans_full.clone()),
        };
        let ans = if ans_full == "no-model" { ans_full.clone() } else { ans };
        if ans_full != "no-model" && got_err.is_none() && (status == "clean") != got_clean {
            model_fail = Some(format!("model says the log is {status}, implementation says clean={got_clean}"));
        }
        let toks: Vec<&str> = ans.split(' ').collect();
        let n: Option<usize> = toks.first().and_then(|t| t.parse().ok());
        if ans == "no-model" {
        } else {
        match n {
            None => model_fail = Some(format!("model readall rejected: {}", &ans[..ans.len().min(80)])),
            Some(n) => {
                let mrecs: Vec<Vec<u8>> = toks[1..].iter().filter(|t| !t.is_empty()).filter_map(|t| unhex(t)).collect();
                if n != mrecs.len() || (got_err.is_none() && mrecs != got_recs) {
                    model_fail = Some(format!("model reader returns {} records, implementation {}", n, got_recs.len()));
                }
            }
        }
        }
    }
    // the corruption flag (what manifest recovery consults): never raised on a file nobody damaged
    // (cut or not), and equal to the model's on the intact file and on damaged variants of it
    if model_fail.is_none() && oracle_fail.is_none() {
        let mut prng = Prng::new(c.dseed ^ 0xF1A6);
        let mut variants: Vec<(String, Vec<u8>)> = vec![("intact".into(), file.clone())];
        // fragment type bytes of the (well-formed) file
        let mut type_offs = vec![];
        let mut pos = 0usize;
        while pos + H <= file.len() {
            if B - (pos % B) < H {
                pos += B - (pos % B);
                continue;
            }
            let len = file[pos + 4] as usize + 256 * file[pos + 5] as usize;
            type_offs.push(pos + 6);
            pos += H + len;
        }
        if !type_offs.is_empty() {
            for _ in 0..2 {
                let o = *prng.pick(&type_offs);
                if o < file.len() {
                    let mut d = file.clone();
                    d[o] = prng.below(5) as u8;
                    variants.push((format!("type byte at {o} set to {}", d[o]), d));
                }
            }
            let o = *prng.pick(&type_offs);
            if o >= 2 && o - 2 < file.len() {
                let mut d = file.clone();
                d[o - 2] ^= 1 << prng.below(8);
                variants.push((format!("length byte at {} changed", o - 2), d));
            }
        }
        if !file.is_empty() {
            let o = prng.below(file.len() as u64) as usize;
            let mut d = file.clone();
            d[o] ^= 1 << prng.below(8);
            variants.push((format!("bit flipped at {o}"), d));
        }
        let scratch = Path::new("/log-damaged");
        for (what, bytes) in variants {
            fs.write_file_raw(scratch, bytes.clone());
            let Ok((recs, err, clean, corrupt)) = raindb::verif::log_read_all_with_flags(dynfs.clone(), scratch) else { continue };
            // (a writer that died after a whole fragment, followed by an append session, IS flagged -
            // C15_log_dead_writer_then_append; the database never appends to such a log)
            if what == "intact" && corrupt && c.cut.is_none() {
                oracle_fail = Some("a log nobody damaged (written by the log writer, possibly cut short) is reported as corrupted: a manifest like this would be refused".into());
                break;
            }
            let ans = drv.ask(&format!("log.readallf {}", hex(&bytes)));
            if ans == "no-model" || err.is_some() {
                continue;
            }
            let want = format!("{} {} {} {}", if clean { "clean" } else { "dirty" }, if corrupt { "corrupt" } else { "intact" }, recs.len(), recs.iter().map(|r| hex(r)).collect::<Vec<_>>().join(" "));
            if ans.trim_end() != want.trim_end() {
                model_fail = Some(format!("reader flags / records differ from the model on a file with {what}: implementation [{}] model [{}]", &want[..want.len().min(60)], &ans[..ans.len().min(60)]));
                break;
            }
        }
    }
    Outcome { oracle_fail, model_fail, file_len: file.len(), nrecs: expected.len() }
}

fn len_class(l: usize) -> &'static str {
    if l == 0 {
        "len.0"
    } else if l < B - 2 * H {
        "len.small"
    } else if l <= B {
        "len.near-block"
    } else if l <= 2 * B + 2 * H {
        "len.1-2blocks"
    } else {
        "len.multi-block"
    }
}

fn record_case(rep: &mut Report, c: &Case, o: &Outcome) {
    let line = c.to_line();
    let nontrivial = o.nrecs > 0 || c.cut.is_some() || c.trunc.is_some();
    rep.case(&line, nontrivial);
    for s in &c.sessions {
        for l in s {
            rep.count(len_class(*l));
        }
    }
    rep.count(&format!("sessions.{}", c.sessions.len().min(5)));
    if c.cut.is_some() {
        rep.count("kind.cut-then-append");
    } else if c.trunc.is_some() {
        rep.count("kind.truncated");
    } else {
        rep.count("kind.roundtrip");
    }
    if let Some(f) = &o.oracle_fail {
        let sig = if c.cut.is_some() {
            "c12:partial-then-append"
        } else if c.trunc.is_some() {
            "c12:truncation"
        } else {
            "c12:roundtrip"
        };
        rep.fail("oracle", sig, f, &line);
    }
    if let Some(f) = &o.model_fail {
        if o.oracle_fail.is_some() {
            rep.fail("model", "c12:model", f, &line);
        } else {
            // the property itself holds on this case: recorded as drift, not as a violation
            rep.drift.push(format!("{f} :: {line}"));
            rep.count("model_drift");
        }
    }
}

/// offsets within a block a writer can be at when an append starts
fn boundary_offsets() -> Vec<usize> {
    let mut v = vec![0usize];
    v.extend(H..=2 * H + 1);
    v.extend(B - 3 * H..=B);
    v
}
fn boundary_lengths() -> Vec<usize> {
    let mut v: Vec<usize> = (0..=2 * H + 1).collect();
    v.extend(B - 3 * H - 1..=B + 2 * H);
    v.extend(2 * B - 3 * H - 1..=2 * B + 2 * H);
    v
}

pub enum Job {
    One(Case, &'static str),
    /// the case, then `n` truncations of its file drawn from the seed
    WithTruncs(Case, usize, u64),
    /// the case, then every truncation point
    AllTruncs(Case),
}

fn run_job(job: &Job, drv: &mut Drv, rep: &mut Report) {
    match job {
        Job::One(c, fam) => {
            let o = run_case(c, drv);
            rep.count(fam);
            record_case(rep, c, &o);
        }
        Job::WithTruncs(c, ntr, seed) => {
            let mut rng = Prng::new(*seed);
            let o = run_case(c, drv);
            rep.count("family.random");
            record_case(rep, c, &o);
            if o.file_len > 0 && o.oracle_fail.is_none() {
                for _ in 0..*ntr {
                    let n = match rng.below(4) {
                        0 => rng.below(o.file_len as u64 + 1) as usize,
                        1 => o.file_len.saturating_sub(rng.below(2 * H as u64 + 2) as usize),
                        2 => {
                            let blk = (rng.below((o.file_len / B + 1) as u64) as usize) * B;
                            (blk + rng.below(3 * H as u64) as usize).saturating_sub(H).min(o.file_len)
                        }
                        _ => rng.below(o.file_len.min(64) as u64 + 1) as usize,
                    };
                    let mut ct = c.clone();
                    ct.trunc = Some(n);
                    let ot = run_case(&ct, drv);
                    rep.count("family.truncation");
                    record_case(rep, &ct, &ot);
                }
            }
        }
        Job::AllTruncs(c) => {
            let o = run_case(c, drv);
            record_case(rep, c, &o);
            for n in 0..=o.file_len {
                let mut ct = c.clone();
                ct.trunc = Some(n);
                let ot = run_case(&ct, drv);
                rep.count("family.truncation-exhaustive");
                record_case(rep, &ct, &ot);
            }
        }
    }
}

pub fn corpus_cases(dir: &str) -> Vec<Case> {
    let mut v = vec![];
    if let Ok(rd) = std::fs::read_dir(dir) {
        let mut paths: Vec<_> = rd.filter_map(|e| e.ok()).map(|e| e.path()).collect();
        paths.sort();
        for p in paths {
            if let Ok(txt) = std::fs::read_to_string(&p) {
                for line in txt.lines() {
                    if line.starts_with("c12 ") {
                        if let Some(c) = Case::from_line(line) {
                            v.push(c);
                        }
                    }
                }
            }
        }
    }
    v
}

pub fn run(tier: &str, seed: u64, drv_path: &str, replay: Option<&str>, corpus: &str) -> Report {
    let mut rep = Report::new(
        "c12",
        "writer sessions (record-length lists, re-opened in append mode) on SimFs: (a) every reachable start offset near 0 and near the block end x every record length around 0, B and 2B, same-session and across a re-open; (b) random sessions from the length classes; (c) every/sampled truncation points; (d) writer killed after k write calls, then a new writer appends. Non-trivial = at least one record expected back, or a cut/truncation; distinct by case text.",
    );
    if let Some(line) = replay {
        let mut drv = Drv::spawn(drv_path);
        match Case::from_line(line) {
            None => rep.fail("oracle", "c12:bad-replay", "cannot parse replay case", line),
            Some(c) => {
                let o = run_case(&c, &mut drv);
                record_case(&mut rep, &c, &o);
            }
        }
        rep.model_requests = drv.requests;
        return rep;
    }
    let thorough = tier == "thorough";
    let mut rng = Prng::new(seed ^ 0xC12);
    let mut jobs: Vec<Job> = vec![];
    for c in corpus_cases(corpus) {
        jobs.push(Job::One(c, "family.corpus"));
    }

    // (a) boundary arithmetic, exhaustive over the two finite grids
    let offs = boundary_offsets();
    let lens = boundary_lengths();
    let stride = if thorough { 1 } else { 3 };
    let mut idx = 0usize;
    for (oi, o) in offs.iter().enumerate() {
        for (li, l) in lens.iter().enumerate() {
            idx += 1;
            // quick tier: every pair is still visited over three seeds; the pairs at the
            // arithmetic edges are always included
            let edge = *o >= B - H - 1 || *l <= H || (*l + H + 1 >= B - *o && *l <= B - *o + H);
            if !edge && (idx + seed as usize) % stride != 0 {
                continue;
            }
            let filler: Vec<usize> = if *o == 0 { vec![] } else { vec![*o - H] };
            for reopen in [false, true] {
                if !thorough && reopen && (oi + li) % 2 == 1 && !edge {
                    continue;
                }
                let sessions = if reopen {
                    vec![filler.clone(), vec![*l, 3]]
                } else {
                    let mut s = filler.clone();
                    s.push(*l);
                    s.push(3);
                    vec![s]
                };
                jobs.push(Job::One(Case { sessions, cut: None, trunc: None, dseed: rng.next() }, "family.boundary"));
            }
        }
    }

    // cuts around a zero-padded block end (status of a file that ends exactly after the padding)
    for pad in 1..H {
        for d in [0usize, 1, 2] {
            for (tr, sess) in [(B - d, vec![vec![B - H - pad, 5]]), (B + d, vec![vec![B - H - pad], vec![5]])] {
                jobs.push(Job::One(Case { sessions: sess, cut: None, trunc: Some(tr), dseed: rng.next() }, "family.padding-cut"));
            }
        }
    }

    // (b) random sessions, (c) truncations of the same file
    let nrandom = if thorough { 1500 } else { 150 };
    for _ in 0..nrandom {
        let c = gen_case(&mut rng, thorough);
        jobs.push(Job::WithTruncs(c, if thorough { 12 } else { 4 }, rng.next()));
    }
    // small files: every truncation point
    let nsmall = if thorough { 40 } else { 6 };
    for _ in 0..nsmall {
        let nrec = rng.range(1, 5) as usize;
        let lens: Vec<usize> = (0..nrec).map(|_| rng.below(24) as usize).collect();
        jobs.push(Job::AllTruncs(Case { sessions: vec![lens], cut: None, trunc: None, dseed: rng.next() }));
    }

    // (d) writer dies between two write calls; a later writer appends
    let ncut = if thorough { 600 } else { 120 };
    for i in 0..ncut {
        let mut first: Vec<usize> = (0..rng.below(3)).map(|_| gen_len(&mut rng, false)).collect();
        // the record being written when the writer dies: usually multi-fragment
        let big = match rng.below(4) {
            0 => gen_len(&mut rng, false),
            1 => B - H + rng.below(40) as usize,
            2 => B + rng.below(2 * B as u64) as usize,
            _ => 2 * B + rng.below(B as u64) as usize,
        };
        first.push(big);
        let after: Vec<usize> = (0..rng.range(1, 3)).map(|_| gen_len(&mut rng, false)).collect();
        // number of write calls before dying: explore all small values
        let k = if i % 3 == 0 { rng.below(8) } else { (i as u64 / 3) % 6 };
        let mut sessions = vec![];
        if rng.chance(1, 3) {
            sessions.push(vec![gen_len(&mut rng, false)]);
        }
        sessions.push(first);
        sessions.push(after);
        jobs.push(Job::One(Case { sessions, cut: Some(k), trunc: None, dseed: rng.next() }, "family.cut-then-append"));
    }
    let rule = rep.rule.clone();
    crate::par::run_jobs(jobs, drv_path, &mut rep, run_job);
    rep.rule = rule;
    rep
}

fn gen_len(rng: &mut Prng, thorough: bool) -> usize {
    match rng.below(10) {
        0 => 0,
        1 | 2 | 3 => rng.below(64) as usize,
        4 | 5 => rng.below(2000) as usize,
        6 => B - 3 * H + rng.below(4 * H as u64) as usize,
        7 => B + rng.below(64) as usize,
        8 => rng.below(3 * B as u64) as usize,
        _ => {
            if thorough {
                rng.below(8 * B as u64) as usize
            } else {
                rng.below(2 * B as u64) as usize
            }
        }
    }
}

fn gen_case(rng: &mut Prng, thorough: bool) -> Case {
    let ns = rng.range(1, 4) as usize;
    let sessions = (0..ns)
        .map(|_| {
            let n = rng.below(5) as usize;
            (0..n).map(|_| gen_len(rng, thorough)).collect()
        })
        .collect();
    Case { sessions, cut: None, trunc: None, dseed: rng.next() }
}
