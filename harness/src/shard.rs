//! Process-level sharding for database-level components: the parent re-executes itself
//! `n` times with `--shard i/n`; each child runs its share of the (deterministically
//! generated) job list sequentially, so that a panic of a background thread, a hang or an
//! abort is attributed to exactly one case. Children report progress through a file.

use crate::report::Report;
use std::io::Read;
use std::process::{Command, Stdio};
use std::time::{Duration, Instant};

pub struct ShardArgs {
    pub index: usize,
    pub count: usize,
    pub progress: Option<String>,
}

pub fn parse_shard(args: &[String]) -> Option<ShardArgs> {
    let pos = args.iter().position(|a| a == "--shard")?;
    let v = args.get(pos + 1)?;
    let (i, n) = v.split_once('/')?;
    let progress = args.iter().position(|a| a == "--progress").and_then(|p| args.get(p + 1).cloned());
    Some(ShardArgs { index: i.parse().ok()?, count: n.parse().ok()?, progress })
}

pub fn note_progress(sh: &Option<ShardArgs>, line: &str) {
    if let Some(s) = sh {
        if let Some(p) = &s.progress {
            let _ = std::fs::write(p, line);
        }
    }
}

/// Parent side: run `nshards` children of the current executable, merge their reports.
pub fn run_sharded(rep: &mut Report, comp: &str, pass_args: &[String], nshards: usize, timeout: Duration, hang_sig: &str) {
    let exe = std::env::current_exe().unwrap();
    let tmp = std::env::temp_dir().join(format!("rainverif-{}-{}", std::process::id(), comp));
    let _ = std::fs::create_dir_all(&tmp);
    let mut kids = vec![];
    for i in 0..nshards {
        let out = tmp.join(format!("out-{i}.json"));
        let prog = tmp.join(format!("progress-{i}.txt"));
        let mut cmd = Command::new(&exe);
        cmd.arg(comp);
        cmd.args(pass_args);
        cmd.args(["--shard", &format!("{i}/{nshards}"), "--progress", prog.to_str().unwrap(), "--out", out.to_str().unwrap()]);
        cmd.stdout(Stdio::null()).stderr(Stdio::piped());
        let child = cmd.spawn().expect("spawn shard");
        kids.push((i, child, out, prog));
    }
    let t0 = Instant::now();
    for (i, mut child, out, prog) in kids {
        let status = loop {
            match child.try_wait() {
                Ok(Some(st)) => break Some(st),
                Ok(None) => {
                    if t0.elapsed() > timeout {
                        let _ = child.kill();
                        let _ = child.wait();
                        break None;
                    }
                    std::thread::sleep(Duration::from_millis(20));
                }
                Err(_) => break None,
            }
        };
        let mut stderr = String::new();
        if let Some(mut e) = child.stderr.take() {
            let _ = e.read_to_string(&mut stderr);
        }
        let ok = status.map_or(false, |s| s.success());
        let loaded = std::fs::read_to_string(&out).ok().and_then(|s| crate::report::from_json(&s));
        match (ok, loaded) {
            (true, Some(r)) => rep.merge(r),
            (_, maybe) => {
                if let Some(r) = maybe {
                    rep.merge(r);
                }
                let case = std::fs::read_to_string(&prog).unwrap_or_default();
                let why = match status {
                    None => "did not finish before the shard deadline (hang) and was killed".to_string(),
                    Some(s) => format!("terminated abnormally ({s})"),
                };
                let tail: String = stderr.chars().rev().take(600).collect::<String>().chars().rev().collect();
                rep.fail("hang", hang_sig, &format!("shard {i} {why} while running this case; stderr tail: {tail}"), &case);
            }
        }
    }
    let _ = std::fs::remove_dir_all(&tmp);
}
