//! LRU cache (table cache / block cache): the real `LRUCache` against the Lean model on generated
//! operation sequences, single-threaded (differential) and multi-threaded (soundness oracle only:
//! a hit returns the last value inserted for that key by a completed or concurrent insert).

use std::sync::Arc;

use raindb::verif::LRUCache;
use raindb::Cache;

use crate::drv::Drv;
use crate::prng::Prng;
use crate::report::Report;

#[derive(Clone, Debug)]
enum Op {
    Insert(u64, u64),
    Get(u64),
    Remove(u64),
}

impl Op {
    fn tok(&self) -> String {
        match self {
            Op::Insert(k, v) => format!("i:{k}:{v}"),
            Op::Get(k) => format!("g:{k}"),
            Op::Remove(k) => format!("r:{k}"),
        }
    }
    fn from_tok(t: &str) -> Option<Op> {
        let p: Vec<&str> = t.split(':').collect();
        Some(match p[0] {
            "i" => Op::Insert(p.get(1)?.parse().ok()?, p.get(2)?.parse().ok()?),
            "g" => Op::Get(p.get(1)?.parse().ok()?),
            "r" => Op::Remove(p.get(1)?.parse().ok()?),
            _ => return None,
        })
    }
}

fn run_real(cap: usize, ops: &[Op]) -> Vec<String> {
    let c: LRUCache<u64, u64> = LRUCache::new(cap);
    let mut out = vec![];
    for op in ops {
        out.push(match op {
            Op::Insert(k, v) => c.insert(*k, *v).get_value().to_string(),
            Op::Get(k) => c.get(k).map_or("-".to_string(), |e| e.get_value().to_string()),
            Op::Remove(k) => {
                c.remove(k);
                "-".to_string()
            }
        });
    }
    out.push(format!("len={}", c.len()));
    out
}

fn case_line(cap: usize, ops: &[Op]) -> String {
    format!("lru cap={cap} ops={}", ops.iter().map(|o| o.tok()).collect::<Vec<_>>().join(","))
}

fn check_case(cap: usize, ops: &[Op], drv: &mut Drv, rep: &mut Report) {
    let line = case_line(cap, ops);
    let real = match std::panic::catch_unwind(|| run_real(cap, ops)) {
        Ok(r) => r,
        Err(_) => {
            rep.case(&line, true);
            rep.fail("oracle", "lru:panic", "the cache panicked", &line);
            return;
        }
    };
    let hits = real.iter().filter(|t| *t != "-" && !t.starts_with("len=")).count();
    rep.case(&line, ops.len() >= 2);
    rep.add("lru.ops", ops.len() as u64);
    rep.add("lru.hits-or-inserts", hits as u64);
    // oracle: a hit is the last value inserted for the key
    let mut spec: std::collections::BTreeMap<u64, u64> = Default::default();
    for (op, r) in ops.iter().zip(real.iter()) {
        match op {
            Op::Insert(k, v) => {
                spec.insert(*k, *v);
                if r != &v.to_string() {
                    rep.fail("oracle", "lru:insert-hands-back-another-value", &format!("insert({k},{v}) handed back {r}"), &line);
                    return;
                }
            }
            Op::Get(k) => {
                if r != "-" && Some(r.clone()) != spec.get(k).map(|v| v.to_string()) {
                    rep.fail("oracle", "lru:stale-or-foreign-value", &format!("get({k}) returned {r}; the last value inserted for this key is {:?}", spec.get(k)), &line);
                    return;
                }
            }
            Op::Remove(k) => {
                spec.remove(k);
            }
        }
    }
    let ans = drv.ask(&format!("lru.run {cap} {}", ops.iter().map(|o| o.tok()).collect::<Vec<_>>().join(" ")));
    if ans == "no-model" {
        return;
    }
    rep.model_requests += 1;
    let want = format!("{} inv=true", real.join(" "));
    if ans != want {
        rep.drift.push(format!("LRU cache differs from the model: implementation [{}] model [{}] :: {line}", real.join(" "), ans));
        rep.count("model_drift");
    }
}

/// several threads on one cache: values encode (key, version); a hit must carry the right key and a
/// version that some insert of that key really wrote, never older than the last insert of the same
/// thread to that key
fn concurrent(seed: u64, rep: &mut Report) {
    let mut rng = Prng::new(seed);
    let cap = rng.range(2, 12) as usize;
    let c: Arc<LRUCache<u64, u64>> = Arc::new(LRUCache::new(cap));
    let nthreads = rng.range(2, 6);
    let line = format!("lru concurrent seed={seed}");
    let mut hs = vec![];
    for t in 0..nthreads {
        let c = c.clone();
        let s = rng.next();
        hs.push(std::thread::spawn(move || -> Option<String> {
            let mut r = Prng::new(s);
            let mut mine: std::collections::BTreeMap<u64, u64> = Default::default();
            for i in 0..3000u64 {
                let k = r.below(16);
                match r.below(10) {
                    0..=3 => {
                        // only thread t writes versions with low bits == t
                        let v = (k << 32) | (i << 8) | t;
                        let back = *c.insert(k, v).get_value();
                        if back >> 32 != k {
                            return Some(format!("insert({k}) handed back a value of key {}", back >> 32));
                        }
                        mine.insert(k, v);
                    }
                    4 => {
                        c.remove(&k);
                        mine.remove(&k);
                    }
                    _ => {
                        if let Some(e) = c.get(&k) {
                            let v = *e.get_value();
                            if v >> 32 != k {
                                return Some(format!("get({k}) returned a value of key {}", v >> 32));
                            }
                            if v & 0xff == t {
                                if let Some(m) = mine.get(&k) {
                                    if v < *m {
                                        return Some(format!("get({k}) returned version {} written by this thread although it has since inserted version {}", (v >> 8) & 0xffffff, (m >> 8) & 0xffffff));
                                    }
                                }
                            }
                        }
                    }
                }
                if c.len() > cap {
                    return Some(format!("the cache holds {} entries, capacity {cap}", c.len()));
                }
            }
            None
        }));
    }
    rep.case(&line, true);
    for h in hs {
        match h.join() {
            Ok(None) => {}
            Ok(Some(what)) => rep.fail("oracle", "lru:concurrent-stale-or-foreign-value", &what, &line),
            Err(_) => rep.fail("oracle", "lru:panic", "a cache thread panicked", &line),
        }
    }
}

/// Block-cache key space: tables opened by several "instances" (option values with their own table
/// files) that share ONE block cache, interleaved with other requests for ids, against the model
/// (`Rain.CacheKeys`; theorem C01_block_cache_keys_never_collide): the partition ids must be the
/// model's, and pairwise distinct (oracle).
fn key_space(seed: u64, drv: &mut Drv, rep: &mut Report) {
    use raindb::fs::FileSystem;
    let mut rng = Prng::new(seed);
    let line = format!("lru ids seed={seed}");
    let fs = crate::simfs::SimFs::new();
    let base = raindb::DbOptions::default(); // one block cache for every instance below
    let ninst = rng.range(1, 3) as usize;
    let mut opts = vec![];
    for i in 0..ninst {
        let path = format!("/i{i}");
        fs.create_dir_all(std::path::Path::new(&format!("{path}/data"))).unwrap();
        let o = raindb::DbOptions { db_path: path, filesystem_provider: fs.dyn_fs(), ..base.clone() };
        for n in 1..=3u64 {
            let entries: Vec<raindb::verif::Entry> = vec![(format!("k{i}{n}").into_bytes(), n, 1u8, vec![b'v'; 10])];
            if let Err(e) = raindb::verif::table_build(&o, n, &entries) {
                rep.fail("oracle", "harness:lru-ids-table-build", &e, &line);
                return;
            }
        }
        opts.push(o);
    }
    // every instance opens its tables through its own TableCache (as the database does); an
    // instance that is "reopened" gets a fresh table cache, the block cache stays
    let mut caches: Vec<raindb::verif::VerifTableCache> = opts.iter().map(|o| raindb::verif::VerifTableCache::new(o, 100)).collect();
    let mut known: std::collections::BTreeMap<(usize, u64), u64> = Default::default();
    let len = rng.range(2, 18);
    let mut steps: Vec<String> = vec![];
    let mut ids: Vec<u64> = vec![];
    for _ in 0..len {
        match rng.below(8) {
            0 => {
                let _ = base.block_cache().new_id();
                steps.push("t".into());
            }
            1 => {
                // close + reopen of one instance
                let i = rng.below(ninst as u64) as usize;
                caches[i] = raindb::verif::VerifTableCache::new(&opts[i], 100);
                known.retain(|k, _| k.0 != i);
                rep.count("lru.ids.instance-reopened");
            }
            _ => {
                let i = rng.below(ninst as u64) as usize;
                let n = rng.range(1, 3);
                match caches[i].find_partition_id(n) {
                    Ok(id) => {
                        if let Some(prev) = known.get(&(i, n)) {
                            // a hit of the table cache: the same table object, the same id
                            if *prev != id {
                                rep.fail("oracle", "c01:block-cache-partition-id-changes", &format!("the table cache handed out table {n} of instance {i} with partition id {id}, before it had {prev}"), &line);
                                return;
                            }
                        } else {
                            known.insert((i, n), id);
                            ids.push(id);
                            steps.push(format!("o:{i}:{n}"));
                        }
                    }
                    Err(e) => {
                        rep.fail("oracle", "harness:lru-ids-table-open", &e, &line);
                        return;
                    }
                }
            }
        }
    }
    rep.case(&line, ids.len() >= 2);
    rep.add("lru.ids.tables-opened", ids.len() as u64);
    let mut sorted = ids.clone();
    sorted.sort();
    sorted.dedup();
    if sorted.len() != ids.len() {
        rep.fail("oracle", "c01:block-cache-partition-ids-collide", &format!("two opened tables sharing one block cache got the same partition id (ids in the order of opening: {ids:?}, steps {}): a block of one table is served for the same offset of the other", steps.join(" ")), &line);
        return;
    }
    let ans = drv.ask(&format!("lru.ids {}", steps.join(" ")));
    if ans == "no-model" {
        return;
    }
    rep.model_requests += 1;
    let want = if ids.is_empty() { "-".to_string() } else { ids.iter().map(|i| i.to_string()).collect::<Vec<_>>().join(",") };
    if ans != want {
        rep.drift.push(format!("block-cache partition ids differ from the model: implementation [{want}] model [{ans}] (steps {}) :: {line}", steps.join(" ")));
        rep.count("model_drift");
    }
}

pub fn rule() -> &'static str {
    "the real LRUCache<u64,u64> against the Lean model: operation sequences (insert / get / remove) of length 1-80 over key spaces 1-2x the capacity, capacities 2-9, outputs of every operation, final length and the model's invariant compared; independently every hit is checked against the last value inserted for the key; plus 2-5 threads hammering one cache (a hit carries its key and never a version older than the reader's own last insert). Plus the block-cache key space: 1-3 option values with their own table files sharing ONE block cache open tables (some stay open, some are closed at once) interleaved with other requests for ids; the partition ids must be pairwise distinct (oracle) and the model's. Non-trivial = at least two operations; distinct by case text."
}

pub fn run(tier: &str, seed: u64, replay: Option<&str>, drv_path: &str) -> Report {
    let mut rep = Report::new("lru", rule());
    let mut drv = Drv::spawn(drv_path);
    if let Some(line) = replay {
        let get = |name: &str| line.split_whitespace().find_map(|t| t.strip_prefix(&format!("{name}="))).map(|s| s.to_string());
        if line.contains(" ids ") {
            let s = get("seed").and_then(|s| s.parse().ok()).unwrap_or(0);
            key_space(s, &mut drv, &mut rep);
            return rep;
        }
        if line.contains("concurrent") {
            let s = get("seed").and_then(|s| s.parse().ok()).unwrap_or(0);
            for _ in 0..10 {
                concurrent(s, &mut rep);
            }
            return rep;
        }
        match (get("cap").and_then(|s| s.parse::<usize>().ok()), get("ops")) {
            (Some(cap), Some(ops)) => {
                let ops: Vec<Op> = ops.split(',').filter_map(Op::from_tok).collect();
                check_case(cap, &ops, &mut drv, &mut rep);
            }
            _ => rep.fail("oracle", "lru:bad-replay", "cannot parse replay case", line),
        }
        return rep;
    }
    let mut rng = Prng::new(seed ^ 0x1213);
    let n = if tier == "thorough" { 20000 } else { 2000 };
    for _ in 0..n {
        let cap = rng.range(2, 10) as usize;
        let space = rng.range(1, 2 * cap as u64 + 1);
        let len = rng.range(1, 81) as usize;
        let ops: Vec<Op> = (0..len)
            .map(|i| match rng.below(10) {
                0..=3 => Op::Insert(rng.below(space), i as u64 + 100),
                4 => Op::Remove(rng.below(space)),
                _ => Op::Get(rng.below(space)),
            })
            .collect();
        check_case(cap, &ops, &mut drv, &mut rep);
    }
    for _ in 0..(if tier == "thorough" { 3000 } else { 300 }) {
        key_space(rng.next() % 1_000_000_000, &mut drv, &mut rep);
    }
    let nc = if tier == "thorough" { 200 } else { 20 };
    for _ in 0..nc {
        concurrent(rng.next() % 1_000_000, &mut rep);
    }
    rep
}
