//! Run independent jobs on worker threads, each with its own model driver and report.

use crate::drv::Drv;
use crate::report::Report;
use std::sync::atomic::{AtomicUsize, Ordering};
use std::sync::Arc;

pub fn threads() -> usize {
    std::env::var("VERIF_THREADS").ok().and_then(|s| s.parse().ok()).unwrap_or_else(|| {
        std::thread::available_parallelism().map(|n| n.get()).unwrap_or(4)
    })
}

/// Jobs are processed in index order per worker (work stealing by a shared counter); reports
/// are merged in worker order. Results do not depend on the schedule because every job carries
/// its own PRNG seed.
pub fn run_jobs<J: Send + Sync + 'static>(
    jobs: Vec<J>,
    drv_path: &str,
    rep: &mut Report,
    f: fn(&J, &mut Drv, &mut Report),
) {
    let n = threads().min(jobs.len().max(1));
    let jobs = Arc::new(jobs);
    let next = Arc::new(AtomicUsize::new(0));
    let mut handles = vec![];
    for _ in 0..n {
        let jobs = Arc::clone(&jobs);
        let next = Arc::clone(&next);
        let path = drv_path.to_string();
        handles.push(std::thread::spawn(move || {
            let mut drv = Drv::spawn(&path);
            let mut r = Report::default();
            loop {
                let i = next.fetch_add(1, Ordering::SeqCst);
                if i >= jobs.len() {
                    break;
                }
                f(&jobs[i], &mut drv, &mut r);
            }
            r.model_requests = drv.requests;
            r
        }));
    }
    for h in handles {
        match h.join() {
            Ok(r) => rep.merge(r),
            Err(_) => rep.fail("panic", "harness:worker-panic", "a harness worker thread panicked", ""),
        }
    }
}
