//! Compaction input selection: the real `CompactionManifest::finalize_compaction_inputs` on
//! synthetic versions against the Lean model (`Rain/Pick.lean`), and the selected inputs against the
//! model's validity predicate (under which `Rain/Props/Pick.lean` proves they always are valid).

use std::collections::BTreeMap;

use raindb::verif::FileDump;
use raindb::DbOptions;

use crate::drv::Drv;
use crate::prng::Prng;
use crate::report::Report;

fn nums(v: &[u64]) -> String {
    if v.is_empty() {
        "_".to_string()
    } else {
        v.iter().map(|n| n.to_string()).collect::<Vec<_>>().join(",")
    }
}

fn parse_nums(s: &str) -> Vec<u64> {
    if s == "_" {
        vec![]
    } else {
        s.split(',').filter_map(|x| x.parse().ok()).collect()
    }
}

fn sorted(mut v: Vec<u64>) -> Vec<u64> {
    v.sort_unstable();
    v
}

/// a random layout satisfying the level invariants: level 0 arbitrary overlapping files (newer =
/// larger number), levels >= 1 sorted and disjoint in internal-key order, adjacent files may share
/// the boundary user key (older versions in the later file)
pub fn gen_layout(rng: &mut Prng) -> Vec<Vec<FileDump>> {
    gen_layout_deep(rng, 0)
}

/// `upto` = 0: one to three deeper levels (levels 1..=4); otherwise every level below `upto` may get
/// files (each deeper level is left empty with chance 1/3)
pub fn gen_layout_deep(rng: &mut Prng, upto: usize) -> Vec<Vec<FileDump>> {
    let mut next_num = 10u64;
    let mut levels: Vec<Vec<FileDump>> = vec![vec![]; 7];
    let key = |i: u64| format!("k{:03}", i).into_bytes();
    let n0 = rng.below(6);
    for _ in 0..n0 {
        let a = rng.below(40);
        let b = a + rng.below(12);
        let f = FileDump { number: next_num, size: rng.range(1, 400), smallest: (key(a), rng.range(1, 1000), 1), largest: (key(b), rng.range(1, 1000), 1), allowed_seeks: 100 };
        next_num += 1;
        levels[0].push(f);
    }
    // a file whose smallest and largest share the user key needs descending sequence numbers
    for f in levels[0].iter_mut() {
        if f.smallest.0 == f.largest.0 && f.smallest.1 < f.largest.1 {
            std::mem::swap(&mut f.smallest.1, &mut f.largest.1);
        }
    }
    let top = if upto == 0 { rng.range(2, 5) as usize } else { upto };
    for l in 1..top {
        if upto != 0 && rng.chance(1, 3) {
            continue;
        }
        let mut pos = rng.below(6);
        let mut last: Option<(Vec<u8>, u64)> = None;
        for _ in 0..rng.below(8) {
            // start: either strictly after the previous file's last user key or on it with an older version
            let (start_key, start_seq) = match &last {
                // strictly older than the previous file's last entry of that user key
                Some((k, s)) if *s > 1 && rng.chance(1, 3) => (k.clone(), 1 + rng.below(*s - 1)),
                _ => {
                    pos += rng.range(1, 4);
                    (key(pos), rng.range(1, 1000))
                }
            };
            let span = rng.below(5);
            let (end_key, end_seq) = if span == 0 {
                (start_key.clone(), 1 + rng.below(start_seq))
            } else {
                pos += span;
                (key(pos), rng.range(1, 1000))
            };
            let f = FileDump { number: next_num, size: rng.range(1, 400), smallest: (start_key, start_seq, 1), largest: (end_key.clone(), end_seq, 1), allowed_seeks: 100 };
            next_num += 1;
            last = Some((end_key, end_seq));
            levels[l].push(f);
        }
    }
    levels
}

fn ikey_le(a: &(Vec<u8>, u64, u8), b: &(Vec<u8>, u64, u8)) -> bool {
    a.0 < b.0 || (a.0 == b.0 && a.1 >= b.1)
}

/// file metadata as the version builder guarantees it: smallest <= largest in internal-key order
pub fn well_formed(levels: &[Vec<FileDump>]) -> bool {
    levels.iter().all(|l| l.iter().all(|f| ikey_le(&f.smallest, &f.largest)))
}

pub enum Outcome {
    Skipped,
    /// (case text, level inputs grew, next-level inputs non-empty)
    Agree(String, bool, bool),
    Drift(String, String),
    Invalid(String, String),
    Panic(String),
}

/// One selection on one layout: seed chosen the way the real callers choose it.
pub fn select(levels: &[Vec<FileDump>], rng: &mut Prng, drv: &mut Drv, origin: &str) -> Outcome {
    if levels.len() < 7 || !well_formed(levels) {
        return Outcome::Skipped;
    }
    let candidates: Vec<usize> = (0..6).filter(|l| !levels[*l].is_empty()).collect();
    if candidates.is_empty() {
        return Outcome::Skipped;
    }
    let level = *rng.pick(&candidates);
    let ltok = crate::dbsim::levels_tok(levels, &BTreeMap::new());
    let lv = &levels[level];
    // seed: level 0 = the overlap closure of one file's range (what pick_compaction / compact_range
    // do); deeper levels = one file, or a run of neighbours (manual compaction)
    let seed: Vec<u64> = if level == 0 {
        let f = rng.pick(lv);
        let level_tok = ltok.split('|').next().unwrap_or("_").to_string();
        let a = drv.ask(&format!("pick.overlap 1 {} {} {}", crate::drv::hex(&f.smallest.0), crate::drv::hex(&f.largest.0), level_tok));
        if a == "no-model" {
            return Outcome::Skipped;
        }
        parse_nums(&a)
    } else {
        let i = rng.below(lv.len() as u64) as usize;
        let n = if rng.chance(1, 3) { rng.range(1, 3) as usize } else { 1 };
        lv[i..(i + n).min(lv.len())].iter().map(|f| f.number).collect()
    };
    if seed.is_empty() {
        return Outcome::Skipped;
    }
    let max_file_size = *rng.pick(&[1u64, 8, 40, 200, 2_000_000]);
    let sizes: Vec<String> = levels[level].iter().chain(levels[level + 1].iter()).map(|f| format!("{}={}", f.number, f.size)).collect();
    let stok = if sizes.is_empty() { "_".to_string() } else { sizes.join(",") };
    let case = format!("pick {origin} max={max_file_size} level={level} seed={} levels={ltok} sizes={stok}", nums(&seed));
    // DbOptions::with_memory_env() pre-sizes a block cache of 8 Mi entries: build one set of options
    // per process and clone it (clones share the cache)
    static BASE: std::sync::OnceLock<DbOptions> = std::sync::OnceLock::new();
    let opts = DbOptions { max_file_size, ..BASE.get_or_init(DbOptions::with_memory_env).clone() };
    let real = match std::panic::catch_unwind(std::panic::AssertUnwindSafe(|| raindb::verif::pick_inputs(&opts, levels, level, &seed))) {
        Ok(Ok(r)) => r,
        Ok(Err(_)) => return Outcome::Skipped,
        Err(_) => return Outcome::Panic(case),
    };
    let model = drv.ask(&format!("pick.setup {max_file_size} {level} {} {ltok} {stok}", nums(&seed)));
    if model == "no-model" {
        return Outcome::Skipped;
    }
    let want = format!("{} {}", nums(&sorted(real.0.clone())), nums(&sorted(real.1.clone())));
    let got: Vec<&str> = model.split(' ').collect();
    let model_norm = if got.len() == 2 { format!("{} {}", nums(&sorted(parse_nums(got[0]))), nums(&sorted(parse_nums(got[1])))) } else { model.clone() };
    if model_norm != want {
        return Outcome::Drift(case, format!("compaction input selection differs: implementation [{want}] model [{model_norm}]"));
    }
    let valid = drv.ask(&format!("pick.valid {ltok} {level} {} {}", nums(&real.0), nums(&real.1)));
    if valid != "true" {
        return Outcome::Invalid(case, format!("the inputs selected for a compaction of level {level} from seed {:?} (level files {:?}, next-level files {:?}) do not satisfy the input clauses of the model's validCompaction (answer: {valid}): a compaction of these files can lose or resurrect data", seed, real.0, real.1));
    }
    Outcome::Agree(case, real.0.len() > seed.len(), !real.1.is_empty())
}

pub fn check_layout(levels: &[Vec<FileDump>], rng: &mut Prng, drv: &mut Drv, rep: &mut Report, origin: &str) {
    match select(levels, rng, drv, origin) {
        Outcome::Skipped => rep.count("pick.skipped"),
        Outcome::Agree(case, grew, next) => {
            rep.case(&case, true);
            rep.model_requests += 2;
            if grew {
                rep.count("pick.level-inputs-grew");
            }
            if next {
                rep.count("pick.next-level-inputs");
            }
        }
        Outcome::Drift(case, what) => {
            rep.case(&case, true);
            rep.drift.push(format!("{what} :: {case}"));
            rep.count("model_drift");
        }
        Outcome::Invalid(case, what) => {
            rep.case(&case, true);
            rep.fail("oracle", "c07:selected-compaction-inputs-invalid", &what, &case);
        }
        Outcome::Panic(case) => {
            rep.case(&case, true);
            rep.fail("oracle", "c09:input-selection-panics", "finalize_compaction_inputs panicked on a well-formed version", &case);
        }
    }
}

/// `Version::pick_level_for_memtable_output` on a synthetic version against the model
/// (`Rain/FlushLevel.lean`), for key ranges at, between and across file boundaries
pub fn check_flush_level(levels: &[Vec<FileDump>], rng: &mut Prng, drv: &mut Drv, rep: &mut Report, origin: &str) {
    static BASE: std::sync::OnceLock<DbOptions> = std::sync::OnceLock::new();
    let max_file_size: u64 = *rng.pick(&[1u64, 20, 100, 400, 2_000, 2_000_000]);
    let opts = DbOptions { max_file_size, ..BASE.get_or_init(DbOptions::with_memory_env).clone() };
    let all: Vec<&FileDump> = levels.iter().flatten().collect();
    let mut bound = |rng: &mut Prng| -> Vec<u8> {
        if !all.is_empty() && rng.chance(2, 3) {
            let f = all[rng.below(all.len() as u64) as usize];
            let mut k = if rng.chance(1, 2) { f.smallest.0.clone() } else { f.largest.0.clone() };
            match rng.below(4) {
                0 => k.push(0),           // just after the boundary
                1 => { k.pop(); }         // a prefix: just before
                _ => {}
            }
            k
        } else {
            format!("k{:03}", rng.below(60)).into_bytes()
        }
    };
    let mut queries: Vec<(Vec<u8>, Vec<u8>)> = vec![];
    for _ in 0..6 {
        let (a, b) = (bound(rng), bound(rng));
        queries.push(if a <= b { (a, b) } else { (b, a) });
    }
    let ltok = crate::dbsim::levels_tok(levels, &BTreeMap::new());
    let sizes: Vec<String> = levels.iter().flatten().map(|f| format!("{}={}", f.number, f.size)).collect();
    let stok = if sizes.is_empty() { "_".to_string() } else { sizes.join(",") };
    let case = format!("pick {origin} flush-level max={max_file_size} levels={ltok}");
    let mut real = vec![];
    for (lo, hi) in &queries {
        match raindb::verif::pick_level(&opts, levels, lo, hi) {
            Ok(l) => real.push(l.to_string()),
            Err(e) => {
                rep.case(&case, true);
                rep.fail("oracle", "c09:flush-level-selection-panics", &format!("pick_level_for_memtable_output({}, {}) on a well-formed version: {e}", crate::drv::hex(lo), crate::drv::hex(hi)), &case);
                return;
            }
        }
    }
    let q = queries.iter().map(|(a, b)| format!("{}/{}", crate::drv::hex(a), crate::drv::hex(b))).collect::<Vec<_>>().join(",");
    let model = drv.ask(&format!("flush.level {max_file_size} {ltok} {stok} {q}"));
    if model == "no-model" {
        return;
    }
    rep.case(&case, true);
    rep.model_requests += 1;
    let want = real.join(" ");
    if model != want {
        rep.drift.push(format!("flush level differs: implementation [{want}] model [{model}] for ranges {q} :: {case}"));
        rep.count("model_drift");
        return;
    }
    for r in &real {
        rep.count(&format!("pick.flush-level-{r}"));
    }
}

/// Manual compaction on a synthetic version: the deepest level with overlap, then for one level a
/// whole request — round after round, the selected files taken out of the version in between (the
/// outputs of a compaction never go back to the level) — against the model of Rain/Manual.lean; the
/// number of rounds is bounded by the number of files of the level (C09_manual_rounds_bounded).
pub fn check_manual(levels: &[Vec<FileDump>], rng: &mut Prng, drv: &mut Drv, rep: &mut Report, origin: &str) {
    static BASE: std::sync::OnceLock<DbOptions> = std::sync::OnceLock::new();
    if levels.len() < 7 || !well_formed(levels) {
        return;
    }
    let max_file_size: u64 = *rng.pick(&[1u64, 50, 300, 800, 2_000_000]);
    let opts = DbOptions { max_file_size, ..BASE.get_or_init(DbOptions::with_memory_env).clone() };
    let all: Vec<&FileDump> = levels.iter().flatten().collect();
    let mut bound = |rng: &mut Prng| -> Option<Vec<u8>> {
        if rng.chance(1, 4) {
            return None;
        }
        Some(if !all.is_empty() && rng.chance(2, 3) {
            let f = all[rng.below(all.len() as u64) as usize];
            let mut k = if rng.chance(1, 2) { f.smallest.0.clone() } else { f.largest.0.clone() };
            match rng.below(4) {
                0 => k.push(0),
                1 => {
                    k.pop();
                }
                _ => {}
            }
            k
        } else {
            format!("k{:03}", rng.below(60)).into_bytes()
        })
    };
    let (mut lo, mut hi) = (bound(rng), bound(rng));
    if let (Some(a), Some(b)) = (&lo, &hi) {
        if a > b {
            std::mem::swap(&mut lo, &mut hi);
        }
    }
    let tok = |k: &Option<Vec<u8>>| k.as_ref().map_or("*".to_string(), |k| crate::drv::hex(k));
    let ltok = crate::dbsim::levels_tok(levels, &BTreeMap::new());
    let case = format!("pick {origin} manual max={max_file_size} range={}..{} levels={ltok}", tok(&lo), tok(&hi));
    // the deepest level with overlap
    let real_max = match raindb::verif::max_level_with_overlap(&opts, levels, lo.as_deref(), hi.as_deref()) {
        Ok(l) => l,
        Err(e) => {
            rep.case(&case, true);
            rep.fail("oracle", "c09:manual-compaction-panics", &format!("has_overlap_in_level on a well-formed version: {e}"), &case);
            return;
        }
    };
    let model = drv.ask(&format!("manual.levels {} {} {ltok}", tok(&lo), tok(&hi)));
    if model == "no-model" {
        return;
    }
    rep.case(&case, true);
    rep.model_requests += 1;
    if model != real_max.to_string() {
        rep.drift.push(format!("deepest level with overlap differs: implementation {real_max} model {model} :: {case}"));
        rep.count("model_drift");
        return;
    }
    rep.count(&format!("pick.manual-max-level-{real_max}"));
    // one request, to its end
    let candidates: Vec<usize> = (0..6).filter(|l| !levels[*l].is_empty()).collect();
    if candidates.is_empty() {
        return;
    }
    let level = *rng.pick(&candidates);
    let mut cur: Vec<Vec<FileDump>> = levels.to_vec();
    let mut begin: Option<raindb::verif::IKey> = lo.clone().map(|k| (k, u64::MAX, 1));
    let end: Option<raindb::verif::IKey> = hi.clone().map(|k| (k, 0, 0));
    let start_files = cur[level].len();
    let mut rounds = 0usize;
    loop {
        let real = match raindb::verif::manual_round(&opts, &cur, level, begin.as_ref(), end.as_ref()) {
            Ok(r) => r,
            Err(e) => {
                rep.fail("oracle", "c09:manual-compaction-panics", &format!("VersionSet::compact_range(level {level}) panics on a well-formed version: {e}"), &case);
                return;
            }
        };
        let real_tok = match &real {
            Some((a, b, k)) => format!("{} {} {}/{}", nums(a), nums(b), crate::drv::hex(&k.0), k.1),
            None => "done".to_string(),
        };
        let sizes: Vec<String> = cur.iter().flatten().map(|f| format!("{}={}", f.number, f.size)).collect();
        let model = drv.ask(&format!(
            "manual.round {max_file_size} {level} {} {} {} {}",
            begin.as_ref().map_or("*".to_string(), |k| crate::drv::hex(&k.0)),
            tok(&hi),
            crate::dbsim::levels_tok(&cur, &BTreeMap::new()),
            if sizes.is_empty() { "_".to_string() } else { sizes.join(",") }
        ));
        rep.model_requests += 1;
        if model != real_tok {
            rep.drift.push(format!("manual compaction round {} of level {level} differs: implementation [{real_tok}] model [{model}] on {:?} from {:?} :: {case}", rounds + 1, cur.iter().map(|l| l.iter().map(|f| f.number).collect::<Vec<_>>()).collect::<Vec<_>>(), begin.as_ref().map(|k| crate::drv::hex(&k.0))));
            rep.count("model_drift");
            return;
        }
        let Some((in0, in1, next)) = real else { break };
        rounds += 1;
        if in0.is_empty() || rounds > start_files {
            rep.fail("oracle", "c09:manual-compaction-makes-no-progress", &format!("round {rounds} of a manual compaction request on a level that had {start_files} files (selected {in0:?})"), &case);
            return;
        }
        // the model's validity predicate on what was selected
        let v = drv.ask(&format!("pick.valid {} {level} {} {}", crate::dbsim::levels_tok(&cur, &BTreeMap::new()), nums(&in0), nums(&in1)));
        if v != "true" && v != "no-model" {
            rep.fail("oracle", "c07:selected-inputs-not-valid", &format!("manual compaction of level {level}: inputs {in0:?} + {in1:?} do not satisfy the model's validInputs ({v})"), &case);
            return;
        }
        cur[level].retain(|f| !in0.contains(&f.number));
        cur[level + 1].retain(|f| !in1.contains(&f.number));
        begin = Some(next);
    }
    rep.count(&format!("pick.manual-rounds-{}", rounds.min(6)));
    rep.count(if level == 0 { "pick.manual-level-0" } else { "pick.manual-level-deeper" });
}

/// `is_base_level_for_key` with its forward-only pointers on a synthetic version: a sequence of
/// user keys (ascending as a compaction asks them, or in random order) put to the real function on
/// one manifest, against the model of the pointers (Rain/BaseLevel.lean); for ascending sequences
/// both must also equal the specification (C07_base_level_pointers_are_exact).
pub fn check_base_level(levels: &[Vec<FileDump>], rng: &mut Prng, drv: &mut Drv, rep: &mut Report, origin: &str) {
    static BASE: std::sync::OnceLock<DbOptions> = std::sync::OnceLock::new();
    if levels.len() < 7 || !well_formed(levels) {
        return;
    }
    let opts = BASE.get_or_init(DbOptions::with_memory_env).clone();
    let level = rng.below(4) as usize;
    let all: Vec<&FileDump> = levels.iter().skip(level + 2).flatten().collect();
    let mut keys: Vec<Vec<u8>> = vec![];
    for _ in 0..rng.range(1, 14) {
        let k = if !all.is_empty() && rng.chance(2, 3) {
            let f = all[rng.below(all.len() as u64) as usize];
            let mut k = if rng.chance(1, 2) { f.smallest.0.clone() } else { f.largest.0.clone() };
            match rng.below(4) {
                0 => k.push(0),
                1 => {
                    k.pop();
                }
                _ => {}
            }
            k
        } else {
            format!("k{:03}", rng.below(60)).into_bytes()
        };
        keys.push(k.clone());
        if rng.chance(1, 4) {
            keys.push(k); // several versions of one user key follow each other in the merged input
        }
    }
    let ascending = rng.chance(3, 4);
    if ascending {
        keys.sort();
    }
    let ltok = crate::dbsim::levels_tok(levels, &BTreeMap::new());
    let ktok = keys.iter().map(|k| crate::drv::hex(k)).collect::<Vec<_>>().join(",");
    let case = format!("pick {origin} base-level level={level} ascending={ascending} keys={ktok} levels={ltok}");
    let real = match std::panic::catch_unwind(std::panic::AssertUnwindSafe(|| raindb::verif::base_level_seq(&opts, levels, level, &keys))) {
        Ok(Ok(r)) => r.iter().map(|b| if *b { '1' } else { '0' }).collect::<String>(),
        Ok(Err(e)) => {
            rep.fail("oracle", "c09:base-level-test-panics", &e, &case);
            return;
        }
        Err(_) => {
            rep.case(&case, true);
            rep.fail("oracle", "c09:base-level-test-panics", "is_base_level_for_key panics on a well-formed version", &case);
            return;
        }
    };
    let model = drv.ask(&format!("base.seq {level} {ltok} {ktok}"));
    if model == "no-model" {
        return;
    }
    rep.case(&case, true);
    rep.model_requests += 1;
    let (code_model, spec) = model.split_once('/').unwrap_or((model.as_str(), ""));
    if code_model != real {
        rep.drift.push(format!("is_base_level_for_key differs: implementation [{real}] model of the pointers [{code_model}] :: {case}"));
        rep.count("model_drift");
        return;
    }
    if ascending && spec != real {
        rep.fail("oracle", "c07:base-level-test-differs-from-its-specification", &format!("keys asked in ascending order: is_base_level_for_key answers [{real}], but [{spec}] says whether a deeper level holds a file with the key in its range: a tombstone is dropped although an older version lies below it (or kept for ever)"), &case);
        return;
    }
    rep.count(if ascending { "pick.base-level-ascending" } else { "pick.base-level-any-order" });
    if !ascending && spec != real {
        rep.count("pick.base-level-out-of-order-answers-differ-from-spec");
    }
    rep.count(&format!("pick.base-level-true-{}", real.chars().filter(|c| *c == '1').count().min(5)));
}

pub fn rule() -> &'static str {
    "compaction input selection (finalize_compaction_inputs = SetupOtherInputs, boundary files, level-0 overlap closure, expansion with its 25 x max_file_size limit) of the real code on synthetic versions (0-5 overlapping level-0 files, 1-3 deeper levels of 0-7 sorted files, adjacent files sharing a boundary user key, random sizes and max_file_size 1 .. 2 000 000) against the Lean model, seed chosen as the real callers choose it (level-0 closure of one file, one file, a run of neighbours); the selected inputs must satisfy the model's validInputs; on the same versions Version::pick_level_for_memtable_output for six key ranges at, just before / after and across file boundaries, with max_file_size 1 .. 2 000 000 (grandparent limit), against the model of Rain/FlushLevel.lean; and manual compaction (Rain/Manual.lean): the deepest level holding a file that overlaps a range with open or closed ends, and a whole manual request on one level, round by round (VersionSet::compact_range with its size cut, the selected files removed in between) until it is done, every round compared with the model, the selected inputs checked against validInputs, the number of rounds against the number of files of the level; and is_base_level_for_key with its forward-only per-level pointers (Rain/BaseLevel.lean) on versions with files down to level 5: key sequences in ascending order (as a compaction asks) or in random order put to one manifest, against the model of the pointers, and for ascending sequences against the specification isBaseLevel. Non-trivial = at least two files in the two levels; distinct by case text."
}

pub fn run(tier: &str, seed: u64, replay: Option<&str>, drv_path: &str) -> Report {
    let mut rep = Report::new("pick", rule());
    let mut drv = Drv::spawn(drv_path);
    let mut rng = Prng::new(seed ^ 0x91C4);
    if let Some(line) = replay {
        // replays are re-generated from the seed embedded in the case origin
        if let Some(s) = line.split_whitespace().find_map(|t| t.strip_prefix("gen=")).and_then(|s| s.parse::<u64>().ok()) {
            let mut r = Prng::new(s);
            let levels = gen_layout(&mut r);
            check_layout(&levels, &mut r, &mut drv, &mut rep, &format!("gen={s}"));
            check_flush_level(&levels, &mut r, &mut drv, &mut rep, &format!("gen={s}"));
            check_manual(&levels, &mut r, &mut drv, &mut rep, &format!("gen={s}"));
            let deep = gen_layout_deep(&mut r, 6);
            check_base_level(&deep, &mut r, &mut drv, &mut rep, &format!("gen={s}"));
        } else {
            rep.fail("oracle", "pick:bad-replay", "cannot parse replay case", line);
        }
        return rep;
    }
    let n = if tier == "thorough" { 40_000 } else { 3000 };
    for _ in 0..n {
        let s = rng.next() % 1_000_000_000_000;
        let mut r = Prng::new(s);
        let levels = gen_layout(&mut r);
        check_layout(&levels, &mut r, &mut drv, &mut rep, &format!("gen={s}"));
        check_flush_level(&levels, &mut r, &mut drv, &mut rep, &format!("gen={s}"));
        check_manual(&levels, &mut r, &mut drv, &mut rep, &format!("gen={s}"));
        let deep = gen_layout_deep(&mut r, 6);
        check_base_level(&deep, &mut r, &mut drv, &mut rep, &format!("gen={s}"));
    }
    rep
}
