#[path = "../src/simfs.rs"] mod simfs;
#[path = "../src/prng.rs"] mod prng;
#[path = "../src/drv.rs"] mod drv;
#[path = "../src/report.rs"] mod report;
#[path = "../src/dbsim.rs"] mod dbsim;
#[path = "../src/shard.rs"] mod shard;
#[path = "../src/lsm.rs"] mod lsm;
#[path = "../src/corrupt.rs"] mod corrupt;
use raindb::{DB, ReadOptions, RainDbIterator};
fn main() {
    let img = corrupt::build_image(266191).unwrap();
    let path = std::path::PathBuf::from("/db/data/5.rdb");
    let copy = img.fs.snapshot();
    let mut data = copy.read_file(&path).unwrap();
    data[98] = 201;
    copy.write_file_raw(&path, data);
    let db = DB::open(img.cfg.options(&copy)).unwrap();
    println!("get 0000: {:?}", db.get(ReadOptions::default(), &[0,0]).map(|v| v.len()));
    println!("get 00: {:?}", db.get(ReadOptions::default(), &[0]).map(|v| v.len()));
    let st = db.verif_state();
    println!("levels {:?}", st.levels.iter().map(|l| l.iter().map(|f| (f.number, f.size)).collect::<Vec<_>>()).collect::<Vec<_>>());
    println!("bad {:?}", st.bad_state);
    println!("expected has 0000: {:?}", img.expected.get(&vec![0u8,0]).map(|v| v.len()));
    let mut it = db.new_iterator(ReadOptions::default()).unwrap();
    it.seek_to_first().unwrap();
    let mut n=0; while it.is_valid() { n+=1; it.next(); }
    println!("scan {} of {}", n, img.expected.len());
}
